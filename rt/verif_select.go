package runtime

// Added to the runtime by the /verif build overlay (never part of a shipped
// binary). When the simulator has stored a non-zero seed, the poll order of
// select, the iteration seed of heap-allocated maps and the hash keys become
// functions of that seed instead of the per-M random state.

import (
	"internal/runtime/atomic"
	_ "unsafe"
)

var verifSelectSeed atomic.Uint64

//go:linkname verifSetSelectSeed
func verifSetSelectSeed(s uint64) { verifSelectSeed.Store(s) }

//go:linkname verifGoid
func verifGoid() uint64 { return getg().goid }

//go:nosplit
func verifSelectRandn(n uint32) uint32 {
	s := verifSelectSeed.Load()
	if s == 0 {
		return cheaprandn(n)
	}
	z := s + uint64(n)*0x9E3779B97F4A7C15
	z = (z ^ (z >> 30)) * 0xBF58476D1CE4E5B9
	z = (z ^ (z >> 27)) * 0x94D049BB133111EB
	z = z ^ (z >> 31)
	return uint32((uint64(uint32(z)) * uint64(n)) >> 32)
}
