#!/bin/bash
# tools/allquick.sh [seed ...] : every claimed check's quick tier, once per seed; prints one line per check
cd "$(dirname "$(readlink -f "$0")")/.." || exit 2
seeds="${*:-default}"
for s in $seeds; do
  for p in C01 C02 C03 C04 C05 C06 C07 C08 C09 C10 C11 C12 C14 C15 C16 C17; do
    if [ "$s" = default ]; then out=$(./check $p quick 2>&1); else out=$(VERIF_SEED=$s ./check $p quick 2>&1); fi
    rc=$?
    echo "seed=$s $p rc=$rc $(echo "$out" | grep -a "quick: runs" | tail -1 | cut -c1-160)"
    [ $rc -ne 0 ] && echo "$out" | grep -a "VIOLATION\|vdriver:" | cut -c1-300 | head -5
  done
done
