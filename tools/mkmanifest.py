#!/usr/bin/env python3
# Regenerates /verif/MANIFEST.json from the table below (kept in one place so it is always valid).
import json
TX_NOTE = "Trusted: SimNet (stream-level model of one QUIC connection, semantics in DESIGN.md 2.4) instead of quic-go; the app shell around the engines is a stub (sender closes with code 0 on return, receiver exits without closing); the go/ast yield generator; testing/synctest; one fake clock for both nodes."
checks = {
 "C09": dict(level="exploration", design="4/C09",
   text="Tier T2: the real Prober.ProbeAndDial and real quic-go/TLS run over a simulated UDP network on the fake clock in which one listener is reachable through 1-4 candidate paths with their own up/down latencies (a third of the extra paths share the first path's round trip, split differently, so that handshakes finish together on the dialer), loss and blackholing; candidate lists carry duplicates, turn:-prefixed aliases and unroutable entries. Afterwards the real authenticateTransport (real TLS exporter) runs on both committed ends. Oracle: dialer and acceptor are on the same connection and authenticate; 5 s after ProbeAndDial returned every other connection the listener completed has been closed by the dialer; ProbeAndDial succeeds whenever a path is reachable. Two genuine defects are listed as known findings; a third was fixed.",
   note="In three quarters of the runs no scheduler is installed (quic-go is not instrumented): interleavings come from latencies and loss, and a replay reproduces the outcome, not a decision log; a quarter of the runs are driven by the seeded scheduler over the generated yield points of internal/ice and internal/app with quic-go running freely between two steps, and replay exactly; oracles that depend on a deadline being ample are judged only on loss-free paths with a round trip of at most 3 s; each reported violation is re-run in 5 fresh processes and its replay stability is printed. The accepting side is a transcription of runTransfer's acceptOnce (stub); STUN/TURN/NewProber do not run; the receiver's delayed dial-back is not modelled.",
   technique="deterministic simulation of real QUIC over a simulated datagram network with per-path latency/loss faults on a fake clock (testing/synctest)"),
 "C10": dict(level="exploration", design="4/C10",
   text="The real thruserv main() (handlers, hub, session store, gorilla WebSocket, net/http) runs over simulated TCP; 1-3 sessions of scripted WebSocket clients join, reconnect with duplicate ids, stall, close or reset, and concurrently send addressed, broadcast, spoofed-from, foreign-session-id and malformed messages carrying unique tokens. The per-client receive logs are compared with a reference routing model with interval semantics: never a message from another session; from = the author's connect-time id; addressed messages only at the addressee, broadcasts never back at the author; no duplicates; per author-recipient order preserved; a message must be present at every recipient that had its peer_list before the send, kept reading to the end and has a unique id (author still connected); an unknown addressee is reported to the author and only to it.",
   note="net/http and gorilla are real but not instrumented; SimTCP replaces the kernel. must-deliver is deliberately narrow (see assumptions in the evidence): everything around joins, leaves and replaced connections is 'may'.",
   technique="deterministic simulation of the real server over simulated TCP with scripted clients; history check of receive logs against a reference routing model"),
 "C14": dict(level="exploration", design="4/C14",
   text="The real thruserv main() runs as a node over simulated TCP on a fake clock. Scenarios per run: join-code lifetime probed 1 ms before and after expiry for lifetimes from 1 s to 24 h, and around the host's disconnect; uniqueness of join codes among 20-50 live sessions with the code random source reduced to 256 values; concurrent bursts of session creations, receivers of one host and WebSocket connections against limits 1-3 and against 0 (disabled: every request must pass); message sizes around --max-message-bytes and message bursts against the per-connection token bucket. Oracle: a code admits exactly while its session lives; limits are never exceeded also under the interleavings the scheduler produces; 0 means no limit.",
   note="net/http and gorilla/websocket are real but not instrumented (they run freely between two scheduler events); SimTCP replaces the kernel; crypto/rand.Reader is a seeded reader. 0 = unlimited is checked only for the flags documented that way (--max-sessions, --max-receivers-per-sender, --max-ws-connections).",
   technique="deterministic simulation: real server main over simulated TCP with fake clock, seeded schedules, concurrent request bursts"),
 "C16": dict(level="exploration", design="4/C16",
   text="One server configuration per run is drawn from the grid {12 limit/timeout flags x (default, small, 0)} x TURN off / 1-2 TURN URLs in 11 spellings (host names, IPv4 and IPv6 literals) with secrets containing URL-significant characters, with peer ids containing URL-significant characters; the real clienthttp.CreateSession, buildWebSocketURL, wsclient.Dial and ReadLoop run for both roles against the real server main over simulated TCP, and the TURN credentials the server pushes are parsed with the client's parseTurnServer and compared with the user, secret and endpoint the configured secret and URL mean. No faults.",
   note="What the simulator adds here is running the real server and clients as nodes of one process over SimTCP with a per-run configuration and a fake clock for the timeouts; the TURN URL agreement itself is a pure function pair that rides along. net/http and gorilla are real but not instrumented.",
   technique="deterministic simulation of server and clients over simulated TCP, swarm over server configurations"),
 "C08": dict(level="fault_enumeration", design="4/C08",
   text="The real authenticateTransport runs at the honest ends over simulated sessions whose exporter gives both ends of one session the same keying material and different sessions different material. Scenarios: honest pairs with equal / different / empty / prefix codes; every single-bit flip and every truncation of either 50-byte authentication message (the 900 alterations are walked systematically by run index); an attacker without the code relaying, replaying proofs captured from an earlier session, or reflecting between two sessions; rogue dialers and listeners that follow the protocol with a drawn code (the right one as positive control), replay, reflect, swap roles, send random proofs or stay silent; all under seeded segmentation and schedules. Oracle: an honest end accepts iff its peer is the other honest end of the same session holding the same code and the message it received is unaltered; every honest end returns within its 10 s timeout.",
   note="In the T1 part the TLS exporter is a stub; a T2 part (C08T2) runs honest, wrong-code, TLS-terminating relay and reflection scenarios on real QUIC/TLS sessions with the real exporter, HMAC-SHA256 is trusted. The clause 'no manifest or file byte before authentication' is NOT decided: runICEQUICTransfer, runTransfer and acceptExtraConns cannot run in the simulator, and in the harness the order is the harness's own.",
   technique="deterministic simulation with scripted attackers; enumeration of all single-bit and truncation alterations of the authentication messages"),
 "C12": dict(level="exploration", design="4/C12",
   text="The real SnapshotSender admission code (handleEnvelope, handlePeerJoined, handleManifestAccept, handlePeerLeft, maybeStartTransfers, runTransfer, cleanup) is driven by seeded event scripts over 1-5 receivers (join, repeated accept, leave, rejoin, transfer success/failure, cleanup ticks, clock jump past the TTL) for max-receivers 1-3, with a simulated transfer function, under seeded schedules over the generated yield points. In half of the runs the event loop is starved so that every event meets a quiet sender and the queue and the set of running transfers are compared with a sequential reference admission model after every event; in the other half events overlap with the aftermath of earlier ones and interleaving-robust invariants are judged: never more than max-receivers live transfers, no receiver both queued and holding a slot or queued with a final status, no never-departed receiver started with a cancelled context, and in the final quiet state no idle slot while the queue is non-empty and active map = running transfers.",
   note="transferFn, the signaling connection and the event source are stubs; the bodies of the real transfer functions do not run here. The generated yield points and testing/synctest are trusted.",
   technique="deterministic simulation: seeded schedules over generated yield points, sequential reference model checked at quiescent points"),
 "C15": dict(level="exploration", design="4/C15",
   text="A healthy small transfer is recorded in the simulator; its transcript is mutated (truncation, boundary values in length/count/index fields, wrong magic, unknown or swapped record types, duplicated/dropped/inserted ranges, absurd manifest/bitmap/chunk-size/frame lengths) and replayed by a scripted peer against the real receiver or the real sender with seeded segmentation and schedules; the script ends its input (FIN on every stream, optionally closing the connection). Oracle: no panic, no death of the process (each worker runs under a 3 GiB address-space limit; a fatal out-of-memory is attributed to the run in progress), the target returns within 15 simulated minutes of the end of input, Go TotalAlloc growth <= 64 x bytes received + 48 MiB, and a receiver that reports success after data-stream-only mutations holds the identical tree.",
   note="Mutation is plain seeded mutation of a recorded transcript; the simulator contributes end-of-input semantics, segmentation, the fake clock for hang detection and crash attribution. SimNet instead of quic-go. One genuine defect is listed as known finding (chunk buffers sized by the peer-announced chunk size).",
   technique="deterministic simulation with a scripted byzantine peer replaying mutated recordings; process-crash attribution via per-run breadcrumbs"),
 "C07": dict(level="exploration", design="4/C07",
   text="The real RecvManifestMultiStream runs against a scripted hostile sender over the simulated network: framing is well-formed, but manifest.root, directory and file rel_path, item id or FileBegin.rel_path carry escape patterns (parent references, absolute paths into the sandbox, smuggled separators, NUL, backslashes, the metadata directory), in both root-dir modes, resume on and off, under seeded segmentation and schedules. The output directory sits in a per-run sandbox with decoys; oracle: the snapshot of everything outside the output directory is unchanged and no logged creating/writing/renaming/removing operation of the receiver resolves outside it.",
   note="Hostile strings are a fixed pool (ordinary seeded generation); the simulator contributes the peer, the sandbox accounting through the file-system interposition layer and the schedule. SimNet instead of quic-go; Unix path semantics only.",
   technique="deterministic simulation with a scripted byzantine peer; file-system interposition log and sandbox snapshot as oracle"),
 "C04": dict(level="fault_enumeration", design="4/C04",
   text="Histories of 1-3 interrupted runs (receiver process killed at a crash point = any file-system or network operation of that process, optionally tearing the write in flight; sender killed; abrupt loss; close; cancel) followed by a healthy resumed run into the same directory, all under seeded schedules in the simulator. Oracle: the resumed run succeeds on both sides, the tree is identical to the source, and the first FileResumeInfo per file advertises at least the chunks marked in the sidecar found after the kill. Kill positions are drawn per history; the thorough tier additionally kills the receiver at every file-system crash point of selected schedules.",
   note=TX_NOTE + " Crash model: kill -9 of one process (memory lost, completed system calls durable, a write in flight may be torn, rename atomic); no power-loss reordering, since the code never syncs and the property speaks of killed processes.",
   technique="deterministic simulation with crash injection at enumerated crash points, crash images = the interposed scratch directory, then resumed run"),
 "C05": dict(level="fault_enumeration", design="4/C05",
   text="Same interrupted runs as C04; the oracle is evaluated on every crash image before any recovery: every sidecar the repository's LoadSidecar accepts and whose identity matches a manifest file may mark only chunks whose bytes in the partially written output file equal the source, and every sidecar path must hold exactly the version installed by the last completed rename/write (atomic replacement). Schedules are biased to let the 1 s flusher tick fall between the steps of the data-stream readers.",
   note=TX_NOTE + " Crash model as for C04. Torn writes are cut at a drawn per-mille position of the write.",
   technique="deterministic simulation with crash injection; invariant over the crash image"),
 "C06": dict(level="exploration", design="4/C06",
   text="Prior states are produced by real interrupted runs (as in C04) and then damaged: sidecar truncated at a drawn length, one bit flipped, garbage, a well-formed all-complete sidecar of another size / chunk size / id, .tmp leftover, data file deleted or shortened with the sidecar present, highest marked chunk torn. A healthy resumed run must end with an identical tree or with a failure on at least one side. Damage to chunks other than the highest marked one is not generated (the property promises detection only there).",
   note=TX_NOTE + " One genuine defect is listed as a known finding (repair chunk for a torn highest chunk is not applied); its signature names the mechanism, other outcomes of the same damage are still reported.",
   technique="deterministic simulation: histories of crashed runs plus storage-damage faults between runs, end-state oracle"),
 "C02": dict(level="fault_enumeration", design="4/C02",
   text="Every run executes one seeded workload/configuration/schedule fault-free to learn its delivery sequence and then re-executes it with 1-2 injected faults (graceful close with code 0 by either side, abrupt loss, cancellation of sender or receiver, bit flip in chunk payload or checksum, source file shrunk or removed after the scan, obstructed output path, failing receiver file operation). Connection faults are anchored to delivery indices of that execution; the thorough tier additionally places a fault at every delivery index of selected executions. Oracle per side: error, or success with an identical complete tree (receiver) / with FileDone{ok} written by the receiver for every file (sender); both sides must have returned within the simulated bound. Fault kinds and positions are enumerated per schedule; schedules and workloads are sampled.",
   note=TX_NOTE + " Bit flips stand for corruption below the chunk CRC (QUIC authenticates packets). A fault takes effect at segment granularity, segments being cut at seeded positions down to single bytes.",
   technique="deterministic simulation with fault injection: seeded schedules, faults anchored to (thorough: enumerated over) the delivery sequence of a recorded execution"),
 "C03": dict(level="exploration", design="4/C03",
   text="Seeded search, fault-free: the real SendManifestMultiStream and RecvManifestMultiStream run as two nodes over the simulated QUIC-stream network and the interposed file system in one synctest bubble; workload (tree shape, sizes around chunk boundaries, odd legal names, empty/zero-length cases), configuration (chunk size, 1-8 streams, 1-4 connections, resume per side, hash, root/scan mode, QUIC role, segment size, flow-control window) and schedule (random/weighted/PCT/FIFO, clock stalls, starved actors) are drawn per run. Oracle: both engines return nil before the simulated deadline; otherwise the run is classified as error or hang with the blocked sites. Sampling, not proof.",
   note=TX_NOTE,
   technique="deterministic simulation: seeded schedules over generated yield points, simulated network and clock, liveness as completion within a simulated-time bound"),
 "C01": dict(level="exploration", design="4/C01",
   text="Same simulated runs as C03 (fault-free, all configurations and schedules); whenever both engines report success the output directory digest (paths, types, sizes, SHA-256) must equal the digest of the generated source tree, with nothing else present except the resume-metadata directory. Runs where a side fails are counted as outside this property. Sampling, not proof.",
   note=TX_NOTE + " A second part of the check (C01T2) runs the same engines over the real transferquic adapter and real quic-go on a simulated UDP path and applies the same oracle.",
   technique="deterministic simulation with seeded schedules; end-state digest comparison against the generated source tree"),
 "C17": dict(level="exploration", design="4/C17",
   text="Same simulated runs as C03; every Write of the sender is recorded with the scheduler step at which it was issued and decoded with the repository's decoders; the history must contain exactly one FileBegin and one FileEnd per file, no chunk frame twice (except the verified chunk once more), FileEnd after the last chunk write of its file, nothing after FileEnd, and every needed chunk either written or advertised as present by the receiver. Sampling over schedules, not proof.",
   note=TX_NOTE + " The clause about chunks reported present below the verification point is judged only through 'needed chunk written or advertised' and 'no chunk twice'; the instant at which the report becomes known to the sender is internal and not observable on the wire.",
   technique="deterministic simulation; history check over the recorded, step-stamped wire trace"),
 "C11": dict(level="exploration", design="4/C11",
   text="Seeded search over interleavings of the real peers.Hub (generated yield points before every lock, channel operation and goroutine start, fake clock) driven by 2-6 scripted actors; every run is checked for panics, simulator-detected deadlock, leaked routing state / writer goroutines, mis-routed deliveries, and its operation history is checked for linearizability against a sequential routing-table model with porcupine. Sampling, not proof: a clean batch is evidence.",
   note="Trusted: the go/ast yield generator, testing/synctest quiescence detection, porcupine; the callers are scripts, not the thruserv handlers (those run in C10). Assumes code between two yield points of one goroutine has no synchronisation besides unlock/atomics.",
   technique="deterministic simulation (seeded scheduler over generated yields in a synctest bubble) + porcupine linearizability check of the recorded history"),
}
pending = {
}
na = {
 "C13": "pure function of a static file tree and path list; no schedule, clock, peer or fault to simulate (DESIGN.md section 4)",
 "C18": "pure encode/decode round trip; no schedule, clock, peer or fault to simulate (DESIGN.md section 4)",
 "C19": "pure integer arithmetic over (file size, chunk size); nothing to schedule or fail (DESIGN.md section 4)",
}
# parts of a check that run in tier T4 (the whole application in one bubble, DESIGN.md 2.4)
T4 = {
 "C01": "C01APP (several paths on the host's command line)",
 "C02": "C02APP (dead path, killed or quitting host, killed receiver; the host's own report is read off its captured terminal)",
 "C03": "C03APP (healthy single receiver, small QUIC stream limits) and C03MULTI (several healthy receivers of one host)",
 "C04": "C04APP (receiver killed at the n-th file-system or network operation of its process, or the host killed and the tree hosted again; then thru join again with resume)",
 "C08": "C08APP (an attacker without the join code as rogue listener or rogue dialer, on the primary and on extra connections; no payload before authentication)",
 "C09": "C09APP (multi-homed hosts, equal and asymmetric latencies, unreachable offered addresses; both racing sides as shipped)",
 "C12": "C12APP (one real host with --max-receivers N and 2-4 real receivers, leaves and vanishing receivers, judged from outside the host process)",
}
for pid, txt in T4.items():
    checks[pid]["note"] += " A further part of this check runs the real `thru host` / `thru join` flows against the real thruserv in one bubble (tier T4: signaling over simulated TCP, real quic-go over simulated UDP, the application's socket / interface / stdin calls behind textual seams): " + txt + ". There quic-go, net/http and gorilla run freely between scheduler steps and a replay reproduces the outcome, not a decision log."
checks["C12"]["note"] = checks["C12"]["note"].replace("the bodies of the real transfer functions do not run here.", "the bodies of the real transfer functions do not run in the main part (they do in part C12APP).")
ids = [json.loads(l)["id"] for l in open("/verif/properties.jsonl")]
m = {
 "version": 1,
 "setup_cmd": "./check setup",
 "hooks": {
   "guard": "verif",
   "enable": "no hook commits in /repo: yield points, file-system/exit interposition and the simulator package are generated into a build overlay (go test -overlay, -modfile) from the current working tree by ./check; the tag name is kept for form",
   "baseline_off_cmd": "cd /repo && go test -vet=off -count=1 -timeout 25m ./...",
   "source_commits": [],
   "add_only": True,
 },
 "engines": [{"name": "verifsim", "path": "/verif/sim/verifsim", "serves_properties": sorted(checks), "kind_free_text": "deterministic simulator: seeded scheduler over generated yield points inside a testing/synctest bubble, simulated QUIC-stream network, file-system interposition with crash images, patched runtime (select order, map seeds) via build overlay"}],
 "checks": [],
 "not_applicable": [],
 "notes": "fix: commits in /repo and findings are listed in /verif/known_findings.json; DESIGN.md explains the approach.",
}
for pid in ids:
    if pid in checks:
        c = checks[pid]
        m["checks"].append({
          "property_id": pid,
          "quick_cmd": f"./check {pid} quick",
          "thorough_cmd": f"./check {pid} thorough",
          "evidence_file": f"/verif/evidence/{pid}.json",
          "replay_cmd_template": f"./check replay {pid} {{path}}",
          "engine": "verifsim",
          "level_claimed": {"category": c["level"], "text": c["text"], "design_ref": "DESIGN.md section " + c["design"]},
          "level_note": c["note"],
          "technique": c["technique"],
        })
    elif pid in na:
        m["not_applicable"].append({"property_id": pid, "reason": na[pid]})
    else:
        m["not_applicable"].append({"property_id": pid, "reason": pending.get(pid, "not claimed yet: its simulation harness is designed (DESIGN.md section 3) but not built/validated at this commit")})
json.dump(m, open("/verif/MANIFEST.json", "w"), indent=1)
print("wrote MANIFEST.json:", len(m["checks"]), "checks")
