#!/usr/bin/env python3
# Regenerates /verif/MANIFEST.json from the table below (kept in one place so it is always valid).
import json
checks = {
 "C11": dict(level="exploration", design="3/C11",
   text="Seeded search over interleavings of the real peers.Hub (generated yield points before every lock, channel operation and goroutine start, fake clock) driven by 2-6 scripted actors; every run is checked for panics, simulator-detected deadlock, leaked routing state / writer goroutines, mis-routed deliveries, and its operation history is checked for linearizability against a sequential routing-table model with porcupine. Sampling, not proof: a clean batch is evidence.",
   note="Trusted: the go/ast yield generator, testing/synctest quiescence detection, porcupine; the callers are scripts, not the thruserv handlers (those run in C10). Assumes code between two yield points of one goroutine has no synchronisation besides unlock/atomics.",
   technique="deterministic simulation (seeded scheduler over generated yields in a synctest bubble) + porcupine linearizability check of the recorded history"),
}
pending = {
}
na = {
 "C13": "pure function of a static file tree and path list; no schedule, clock, peer or fault to simulate (DESIGN.md section 4)",
 "C18": "pure encode/decode round trip; no schedule, clock, peer or fault to simulate (DESIGN.md section 4)",
 "C19": "pure integer arithmetic over (file size, chunk size); nothing to schedule or fail (DESIGN.md section 4)",
}
ids = [json.loads(l)["id"] for l in open("/verif/properties.jsonl")]
m = {
 "version": 1,
 "setup_cmd": "./check setup",
 "hooks": {
   "guard": "verif",
   "enable": "no hook commits in /repo: yield points, file-system/exit interposition and the simulator package are generated into a build overlay (go test -overlay, -modfile) from the current working tree by ./check; the tag name is kept for form",
   "baseline_off_cmd": "cd /repo && go test -vet=off -count=1 -timeout 25m ./...",
   "source_commits": [],
   "add_only": True,
 },
 "engines": [{"name": "verifsim", "path": "/verif/sim/verifsim", "serves_properties": sorted(checks), "kind_free_text": "deterministic simulator: seeded scheduler over generated yield points inside a testing/synctest bubble, simulated QUIC-stream network, file-system interposition with crash images, patched runtime (select order, map seeds) via build overlay"}],
 "checks": [],
 "not_applicable": [],
 "notes": "fix: commits in /repo and findings are listed in /verif/known_findings.json; DESIGN.md explains the approach.",
}
for pid in ids:
    if pid in checks:
        c = checks[pid]
        m["checks"].append({
          "property_id": pid,
          "quick_cmd": f"./check {pid} quick",
          "thorough_cmd": f"./check {pid} thorough",
          "evidence_file": f"/verif/evidence/{pid}.json",
          "replay_cmd_template": f"./check replay {pid} {{path}}",
          "engine": "verifsim",
          "level_claimed": {"category": c["level"], "text": c["text"], "design_ref": "DESIGN.md section " + c["design"]},
          "level_note": c["note"],
          "technique": c["technique"],
        })
    elif pid in na:
        m["not_applicable"].append({"property_id": pid, "reason": na[pid]})
    else:
        m["not_applicable"].append({"property_id": pid, "reason": pending.get(pid, "not claimed yet: its simulation harness is designed (DESIGN.md section 3) but not built/validated at this commit")})
json.dump(m, open("/verif/MANIFEST.json", "w"), indent=1)
print("wrote MANIFEST.json:", len(m["checks"]), "checks")
