#!/bin/bash
# seeded_wt.sh <worktree-with-change-applied> <PROP> [tier] : run a check against a scratch worktree
# (VERIF_REPO); /repo, /verif/evidence and /verif/replays are not touched.
wt=$1; prop=$2; tier=${3:-quick}
mkdir -p /verif/build/dev
out=/verif/build/dev/wt-$(basename $wt)-$prop.out
cd /verif && VERIF_REPO=$wt ./check $prop $tier > $out 2>&1; rc=$?
echo "rc=$rc"; grep -A1 "^VIOLATION" $out | grep "class=" | cut -c1-240 | sort | uniq -c | sort -rn | head -8; tail -1 $out | cut -c1-200
