#!/usr/bin/env python3
# validate MANIFEST.json and evidence/*.json against the given schemas
import json, sys, glob
import jsonschema
ok = True
m = json.load(open('/verif/MANIFEST.json'))
try:
    jsonschema.validate(m, json.load(open('/root/.vp/MANIFEST.schema.json')))
    print('MANIFEST ok:', len(m['checks']), 'checks,', len(m.get('not_applicable', [])), 'n/a')
except Exception as e:
    ok = False; print('MANIFEST INVALID:', e)
es = json.load(open('/root/.vp/EVIDENCE.schema.json'))
for f in sorted(glob.glob('/verif/evidence/*.json')):
    try:
        jsonschema.validate(json.load(open(f)), es); print('evidence ok:', f)
    except Exception as e:
        ok = False; print('evidence INVALID:', f, str(e)[:300])
ids = {json.loads(l)['id'] for l in open('/verif/properties.jsonl')}
claimed = {c['property_id'] for c in m['checks']} | {n['property_id'] for n in m.get('not_applicable', [])}
if ids != claimed:
    print('properties neither claimed nor n/a:', sorted(ids - claimed), 'unknown:', sorted(claimed - ids))
sys.exit(0 if ok else 1)
