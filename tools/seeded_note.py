#!/usr/bin/env python3
"""seeded_note.py <id> <check_result text> : update the check_result of a kept seeded change"""
import json, sys
p = f"/verif/seeded/{sys.argv[1]}/meta.json"
m = json.load(open(p)); m["check_result"] = sys.argv[2]
json.dump(m, open(p, "w"), indent=1)
