#!/bin/bash
# seeded_all.sh : run every kept seeded change against the check of the property it breaks
# (the property is the prefix of the directory name); one line per change.
# seeded_all.sh C02 C07 ... : only the changes kept for those properties.
cd "$(dirname "$(readlink -f "$0")")/.." || exit 2
dirs=""
if [ $# -gt 0 ]; then for q in "$@"; do dirs="$dirs $(ls -d seeded/$q-*)"; done; else dirs=$(ls -d seeded/C*); fi
for d in $dirs; do
  p=$(python3 -c "import json,sys; print(json.load(open(sys.argv[1]))['breaks_property'])" $d/meta.json)
  r=$(tools/seeded_run.sh $d $p 2>&1)
  rc=$(echo "$r" | grep -o "^rc=[0-9]*" | head -1)
  cls=$(echo "$r" | grep "class=" | head -2 | sed 's/ *[0-9]* *class=/class=/' | cut -c1-110 | tr '\n' ';')
  echo "$(basename $d) $p $rc $cls"
done
