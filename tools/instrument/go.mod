module veriftools/instrument

go 1.24
