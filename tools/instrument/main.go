// instrument: go/ast rewriter that generates scheduler yield points and
// file-system / exit interposition into copies of the repository's sources.
// It only inserts statements or swaps a callee; expressions are never
// restructured. Usage: instrument <repo> <outdir> <pkgdir>... ; prints an
// overlay "Replace" JSON object body (path pairs) on stdout and a site list
// on <outdir>/sites.txt.
package main

import (
	"regexp"
	"bytes"
	"encoding/json"
	"fmt"
	"go/ast"
	"go/format"
	"go/parser"
	"go/token"
	"os"
	"path/filepath"
	"sort"
	"strconv"
	"strings"
)

const simPkg = "github.com/sheerbytes/sheerbytes/internal/verifsim"

type rewriter struct {
	fset      *token.FileSet
	file      string
	fn        string
	ord       map[string]int
	goCounter int
	sites     []string
	fsSites   int
	used      bool
	hasOS     bool
	fsRewrite bool
	postcall  bool // yield after an assignment from a call that takes a context (a blocking call into code that is not instrumented has just returned)
}

var osFuncs = map[string]bool{"OpenFile": true, "Open": true, "Create": true, "WriteFile": true, "ReadFile": true,
	"ReadDir": true, "Rename": true, "Remove": true, "RemoveAll": true, "MkdirAll": true, "Stat": true, "Lstat": true}
var fileMethods = map[string]string{"WriteAt": "FWriteAt", "ReadAt": "FReadAt", "Truncate": "FTruncate"}

func (r *rewriter) site(kind string) *ast.BasicLit {
	k := r.fn + "/" + kind
	r.ord[k]++
	s := fmt.Sprintf("%s#%d", k, r.ord[k])
	r.sites = append(r.sites, r.file+":"+s)
	r.used = true
	return &ast.BasicLit{Kind: token.STRING, Value: strconv.Quote(s)}
}

func str(s string) *ast.BasicLit { return &ast.BasicLit{Kind: token.STRING, Value: strconv.Quote(s)} }

// mutexID: verifsim.MutexID(&recv) when the receiver expression is addressable
// (identifier or field selection), else 0 (identity unknown).
func mutexID(recv ast.Expr) ast.Expr {
	switch recv.(type) {
	case *ast.Ident, *ast.SelectorExpr:
		return call("MutexID", &ast.UnaryExpr{Op: token.AND, X: recv})
	}
	return &ast.BasicLit{Kind: token.INT, Value: "0"}
}

func call(fn string, args ...ast.Expr) *ast.CallExpr {
	return &ast.CallExpr{Fun: &ast.SelectorExpr{X: ast.NewIdent("verifsim"), Sel: ast.NewIdent(fn)}, Args: args}
}

func (r *rewriter) yield(kind string) ast.Stmt {
	return &ast.ExprStmt{X: call("Y", r.site(kind), str(kind))}
}

func hasRecv(n ast.Node) bool {
	if n == nil {
		return false
	}
	found := false
	ast.Inspect(n, func(x ast.Node) bool {
		switch u := x.(type) {
		case *ast.FuncLit:
			return false
		case *ast.UnaryExpr:
			if u.Op == token.ARROW {
				found = true
			}
		}
		return true
	})
	return found
}

func methodCall(s ast.Stmt) (recv ast.Expr, name string, ok bool) {
	es, isExpr := s.(*ast.ExprStmt)
	if !isExpr {
		return nil, "", false
	}
	ce, isCall := es.X.(*ast.CallExpr)
	if !isCall || len(ce.Args) != 0 {
		return nil, "", false
	}
	se, isSel := ce.Fun.(*ast.SelectorExpr)
	if !isSel {
		return nil, "", false
	}
	return se.X, se.Sel.Name, true
}

func (r *rewriter) list(list []ast.Stmt) []ast.Stmt {
	var out []ast.Stmt
	for _, s := range list {
		out = append(out, r.stmt(s)...)
	}
	return out
}

func (r *rewriter) block(b *ast.BlockStmt) {
	if b != nil {
		b.List = r.list(b.List)
	}
}

// exprs rewrites calls inside an expression tree (fs / exit interposition) and
// descends into function literals.
func (r *rewriter) exprs(n ast.Node) {
	if n == nil {
		return
	}
	ast.Inspect(n, func(x ast.Node) bool {
		switch u := x.(type) {
		case *ast.FuncLit:
			r.block(u.Body)
			return false
		case *ast.CallExpr:
			r.callExpr(u)
		}
		return true
	})
}

func (r *rewriter) callExpr(ce *ast.CallExpr) {
	// Process-wide buffer pools: every simulated node is a process of its own, so
	// each gets its own instance (verifChunkPoolFor, overlay shim in package
	// transfer, keeps chunkPoolFor's own decision whether there is a pool at all).
	if id, ok := ce.Fun.(*ast.Ident); ok && id.Name == "chunkPoolFor" && r.fsRewrite && len(ce.Args) == 1 {
		ce.Fun = ast.NewIdent("verifChunkPoolFor")
		return
	}
	se, ok := ce.Fun.(*ast.SelectorExpr)
	if !ok {
		return
	}
	if id, ok := se.X.(*ast.Ident); ok && id.Obj == nil {
		switch {
		case id.Name == "os" && se.Sel.Name == "Exit":
			ce.Fun = &ast.SelectorExpr{X: ast.NewIdent("verifsim"), Sel: ast.NewIdent("Exit")}
			r.used = true
			return
		case id.Name == "os" && osFuncs[se.Sel.Name] && r.fsRewrite:
			ce.Fun = &ast.SelectorExpr{X: ast.NewIdent("verifsim"), Sel: ast.NewIdent(se.Sel.Name)}
			ce.Args = append([]ast.Expr{r.site("fs." + se.Sel.Name)}, ce.Args...)
			r.fsSites++
			return
		case id.Name == "time" && se.Sel.Name == "AfterFunc" && len(ce.Args) == 2:
			// the goroutine a timer starts gets a name of its own (parent, site, ordinal),
			// like one started by a go statement, and parks at birth
			ce.Fun = &ast.SelectorExpr{X: ast.NewIdent("verifsim"), Sel: ast.NewIdent("AfterFunc")}
			ce.Args = append([]ast.Expr{r.site("afterfunc")}, ce.Args...)
			r.used = true
			return
		case id.Name == "http" && se.Sel.Name == "ListenAndServe":
			ce.Fun = &ast.SelectorExpr{X: ast.NewIdent("verifsim"), Sel: ast.NewIdent("ListenAndServe")}
			r.used = true
			return
		}
	}
	if fn, ok := fileMethods[se.Sel.Name]; ok && r.fsRewrite {
		if id, ok := se.X.(*ast.Ident); ok && id.Obj == nil && (id.Name == "os" || id.Name == "verifsim") {
			return
		}
		want := map[string]int{"WriteAt": 2, "ReadAt": 2, "Truncate": 1}[se.Sel.Name]
		if len(ce.Args) != want {
			return
		}
		ce.Args = append([]ast.Expr{r.site("fs." + se.Sel.Name), se.X}, ce.Args...)
		ce.Fun = &ast.SelectorExpr{X: ast.NewIdent("verifsim"), Sel: ast.NewIdent(fn)}
		r.fsSites++
	}
}

func (r *rewriter) stmt(s ast.Stmt) []ast.Stmt {
	switch st := s.(type) {
	case *ast.BlockStmt:
		r.block(st)
		return []ast.Stmt{st}
	case *ast.IfStmt:
		var pre []ast.Stmt
		if hasRecv(st.Init) || hasRecv(st.Cond) {
			pre = append(pre, r.yield("recv"))
		}
		if st.Init != nil {
			r.exprs(st.Init)
		}
		r.exprs(st.Cond)
		r.block(st.Body)
		if st.Else != nil {
			e := r.stmt(st.Else)
			if len(e) == 1 {
				st.Else = e[0]
			} else {
				st.Else = &ast.BlockStmt{List: e}
			}
		}
		return append(pre, st)
	case *ast.ForStmt:
		if st.Init != nil {
			r.exprs(st.Init)
		}
		if st.Cond != nil {
			r.exprs(st.Cond)
		}
		if st.Post != nil {
			r.exprs(st.Post)
		}
		r.block(st.Body)
		return []ast.Stmt{st}
	case *ast.RangeStmt:
		isChanRecv := false
		r.exprs(st.X)
		r.block(st.Body)
		// range over a channel cannot be told apart syntactically; a post-yield
		// at the top of every range body whose operand is a plain selector/ident
		// named like a channel would be guesswork, so only `range x.jobs`-style
		// loops that the type checker is not needed for are handled: we add the
		// yield when the range has exactly one iteration variable and no key use.
		if st.Value == nil && st.Key != nil {
			if sel, ok := st.X.(*ast.SelectorExpr); ok && (sel.Sel.Name == "jobs" || strings.HasSuffix(sel.Sel.Name, "Ch") || strings.HasSuffix(sel.Sel.Name, "ch")) {
				isChanRecv = true
			}
			if id, ok := st.X.(*ast.Ident); ok && (strings.HasSuffix(id.Name, "Ch") || strings.HasSuffix(id.Name, "ch") || id.Name == "jobs") {
				isChanRecv = true
			}
		}
		if isChanRecv {
			st.Body.List = append([]ast.Stmt{r.yield("post")}, st.Body.List...)
		}
		return []ast.Stmt{st}
	case *ast.SwitchStmt:
		if st.Init != nil {
			r.exprs(st.Init)
		}
		if st.Tag != nil {
			r.exprs(st.Tag)
		}
		for _, c := range st.Body.List {
			cc := c.(*ast.CaseClause)
			for _, e := range cc.List {
				r.exprs(e)
			}
			cc.Body = r.list(cc.Body)
		}
		return []ast.Stmt{st}
	case *ast.TypeSwitchStmt:
		for _, c := range st.Body.List {
			cc := c.(*ast.CaseClause)
			cc.Body = r.list(cc.Body)
		}
		return []ast.Stmt{st}
	case *ast.SelectStmt:
		hasDefault := false
		for _, c := range st.Body.List {
			if c.(*ast.CommClause).Comm == nil {
				hasDefault = true
			}
		}
		kind := "select"
		if hasDefault {
			kind = "selectd"
		}
		pre := r.yield(kind)
		for _, c := range st.Body.List {
			cc := c.(*ast.CommClause)
			if cc.Comm != nil {
				r.exprs(cc.Comm)
			}
			cc.Body = r.list(cc.Body)
			if !hasDefault && cc.Comm != nil {
				cc.Body = append([]ast.Stmt{r.yield("post")}, cc.Body...)
			}
		}
		return []ast.Stmt{pre, st}
	case *ast.LabeledStmt:
		inner := r.stmt(st.Stmt)
		st.Stmt = inner[len(inner)-1]
		return append(inner[:len(inner)-1:len(inner)-1], st)
	case *ast.SendStmt:
		r.exprs(st)
		return []ast.Stmt{r.yield("send"), st, r.yield("post")}
	case *ast.GoStmt:
		r.goCounter++
		nameVar := ast.NewIdent(fmt.Sprintf("_vsn%d", r.goCounter))
		assign := &ast.AssignStmt{Lhs: []ast.Expr{nameVar}, Tok: token.DEFINE, Rhs: []ast.Expr{call("BeforeGo", r.site("go"))}}
		born := &ast.ExprStmt{X: call("Born", nameVar)}
		// a panic in a goroutine ends the simulated process it belongs to, not the worker
		// (only where a harness asks for it: verifsim.RecoverPanics)
		rec := &ast.DeferStmt{Call: call("RecoverNode")}
		if fl, ok := st.Call.Fun.(*ast.FuncLit); ok {
			r.block(fl.Body)
			fl.Body.List = append([]ast.Stmt{rec, born}, fl.Body.List...)
			for _, a := range st.Call.Args {
				r.exprs(a)
			}
			// the parent parks right after the spawn: the child may run before the
			// parent's next statement (e.g. a WaitGroup.Add that comes too late)
			return []ast.Stmt{assign, st, &ast.ExprStmt{X: call("Y", r.site("spawned"), &ast.BasicLit{Kind: token.STRING, Value: "\"spawned\""})}}
		}
		var pre []ast.Stmt
		pre = append(pre, assign)
		fv := ast.NewIdent(fmt.Sprintf("_vsf%d", r.goCounter))
		pre = append(pre, &ast.AssignStmt{Lhs: []ast.Expr{fv}, Tok: token.DEFINE, Rhs: []ast.Expr{st.Call.Fun}})
		var args []ast.Expr
		for i, a := range st.Call.Args {
			r.exprs(a)
			av := ast.NewIdent(fmt.Sprintf("_vsa%d_%d", r.goCounter, i))
			pre = append(pre, &ast.AssignStmt{Lhs: []ast.Expr{av}, Tok: token.DEFINE, Rhs: []ast.Expr{a}})
			args = append(args, av)
		}
		ell := st.Call.Ellipsis
		inner := &ast.CallExpr{Fun: fv, Args: args}
		if ell.IsValid() {
			inner.Ellipsis = 1
		}
		body := &ast.BlockStmt{List: []ast.Stmt{rec, born, &ast.ExprStmt{X: inner}}}
		st.Call = &ast.CallExpr{Fun: &ast.FuncLit{Type: &ast.FuncType{Params: &ast.FieldList{}}, Body: body}}
		return []ast.Stmt{&ast.BlockStmt{List: append(pre, st, &ast.ExprStmt{X: call("Y", r.site("spawned"), &ast.BasicLit{Kind: token.STRING, Value: "\"spawned\""})})}}
	case *ast.DeferStmt:
		r.exprs(st.Call)
		return []ast.Stmt{st}
	case *ast.ExprStmt:
		// x.Do(f) on a sync.Once (by name: every Once of this code base is called ...Once)
		if ce, ok := st.X.(*ast.CallExpr); ok && len(ce.Args) == 1 {
			if se, ok := ce.Fun.(*ast.SelectorExpr); ok && se.Sel.Name == "Do" && isOnceName(se.X) {
				r.exprs(ce.Args[0])
				r.used = true
				return []ast.Stmt{&ast.ExprStmt{X: call("OnceDo", r.site("once"), &ast.UnaryExpr{Op: token.AND, X: se.X}, ce.Args[0])}}
			}
		}
		if recv, name, ok := methodCall(st); ok {
			switch name {
			case "Lock":
				return []ast.Stmt{&ast.ExprStmt{X: call("AcquireM", r.site("lock"),
					&ast.SelectorExpr{X: recv, Sel: ast.NewIdent("TryLock")}, &ast.SelectorExpr{X: recv, Sel: ast.NewIdent("Lock")}, mutexID(recv), ast.NewIdent("true"))}}
			case "RLock":
				return []ast.Stmt{&ast.ExprStmt{X: call("AcquireM", r.site("rlock"),
					&ast.SelectorExpr{X: recv, Sel: ast.NewIdent("TryRLock")}, &ast.SelectorExpr{X: recv, Sel: ast.NewIdent("RLock")}, mutexID(recv), ast.NewIdent("false"))}}
			case "Wait":
				return []ast.Stmt{r.yield("wait"), st, r.yield("post")}
			}
		}
		if ce, ok := st.X.(*ast.CallExpr); ok {
			if id, ok := ce.Fun.(*ast.Ident); ok && id.Name == "close" && len(ce.Args) == 1 {
				r.exprs(st)
				return []ast.Stmt{r.yield("close"), st}
			}
		}
		rc := hasRecv(st)
		r.exprs(st)
		if rc {
			return []ast.Stmt{r.yield("recv"), st, r.yield("post")}
		}
		return []ast.Stmt{st}
	case *ast.AssignStmt:
		rc := hasRecv(st)
		r.exprs(st)
		if rc {
			return []ast.Stmt{r.yield("recv"), st, r.yield("post")}
		}
		if r.postcall && len(st.Rhs) == 1 {
			if ce, ok := st.Rhs[0].(*ast.CallExpr); ok && len(ce.Args) > 0 {
				if id, ok := ce.Args[0].(*ast.Ident); ok && strings.Contains(strings.ToLower(id.Name), "ctx") {
					return []ast.Stmt{st, r.yield("postcall")}
				}
			}
		}
		return []ast.Stmt{st}
	case *ast.DeclStmt:
		rc := hasRecv(st)
		r.exprs(st)
		if rc {
			return []ast.Stmt{r.yield("recv"), st, r.yield("post")}
		}
		return []ast.Stmt{st}
	case *ast.ReturnStmt:
		rc := hasRecv(st)
		r.exprs(st)
		if rc {
			return []ast.Stmt{r.yield("recv"), st}
		}
		return []ast.Stmt{st}
	case *ast.IncDecStmt:
		return []ast.Stmt{st}
	default:
		return []ast.Stmt{s}
	}
}

// isOnceName: the receiver of a Do call is a sync.Once if its (last) name says so.
func isOnceName(e ast.Expr) bool {
	name := ""
	switch v := e.(type) {
	case *ast.Ident:
		name = v.Name
	case *ast.SelectorExpr:
		name = v.Sel.Name
	}
	return strings.HasSuffix(name, "Once") || strings.HasSuffix(name, "once")
}

func funcName(fd *ast.FuncDecl) string {
	if fd.Recv != nil && len(fd.Recv.List) == 1 {
		t := fd.Recv.List[0].Type
		if se, ok := t.(*ast.StarExpr); ok {
			t = se.X
		}
		if ie, ok := t.(*ast.IndexExpr); ok {
			t = ie.X
		}
		if id, ok := t.(*ast.Ident); ok {
			return id.Name + "." + fd.Name.Name
		}
	}
	return fd.Name.Name
}

// netSeams: socket, interface, terminal-input and sub-process calls of the
// application packages are textually redirected to the simulator's seams (same
// line, so positions stay put); see sim/verifsim/hostnet.go.
var netSeams = [][2]string{
	{"*net.UDPConn", "verifsim.UDPConn"},
	{"net.ListenUDP(", "verifsim.ListenUDP("},
	{"net.Interfaces()", "verifsim.Interfaces()"},
	{"os.Stdin", "verifsim.Stdin()"},
	{"exec.Command(", "verifsim.ExecCommand("},
}

var exitValue = regexp.MustCompile(`\bos\.Exit([^(\w])`)

func instrumentFile(in, out string, fsRewrite, postcall, netRewrite bool) (sites []string, changed bool, err error) {
	fset := token.NewFileSet()
	var src any
	seamed := false
	if netRewrite {
		b, rerr := os.ReadFile(in)
		if rerr != nil {
			return nil, false, rerr
		}
		txt := string(b)
		for _, kv := range netSeams {
			if strings.Contains(txt, kv[0]) {
				txt = strings.ReplaceAll(txt, kv[0], kv[1])
				seamed = true
			}
		}
		// os.Exit taken as a value (exitFn: os.Exit): calls are rewritten on the syntax tree,
		// a function value has to be caught here
		if exitValue.MatchString(txt) {
			txt = exitValue.ReplaceAllString(txt, "verifsim.Exit$1")
			seamed = true
		}
		src = txt
	}
	f, err := parser.ParseFile(fset, in, src, parser.ParseComments)
	if err != nil {
		return nil, false, err
	}
	r := &rewriter{fset: fset, file: filepath.Base(in), ord: map[string]int{}, fsRewrite: fsRewrite, postcall: postcall}
	r.used = seamed
	keep := ""
	if seamed {
		for _, imp := range f.Imports {
			if imp.Name != nil {
				continue
			}
			switch imp.Path.Value {
			case `"net"`:
				keep += "\nvar _ net.Addr // keep the import used after the seams were put in\n"
			case `"os/exec"`:
				keep += "\nvar _ = exec.ErrNotFound\n"
			}
		}
	}
	for _, imp := range f.Imports {
		if imp.Path.Value == `"os"` && imp.Name == nil {
			r.hasOS = true
		}
	}
	for _, d := range f.Decls {
		switch fd := d.(type) {
		case *ast.FuncDecl:
			if fd.Body != nil {
				r.fn = funcName(fd)
				r.block(fd.Body)
			}
		case *ast.GenDecl:
			r.fn = "pkgvar"
			r.exprs(fd)
		}
	}
	if !r.used {
		return nil, false, nil
	}
	imp := &ast.GenDecl{Tok: token.IMPORT, Specs: []ast.Spec{&ast.ImportSpec{Path: &ast.BasicLit{Kind: token.STRING, Value: strconv.Quote(simPkg)}}}}
	f.Decls = append([]ast.Decl{imp}, f.Decls...)
	var buf bytes.Buffer
	if err := format.Node(&buf, fset, f); err != nil {
		return nil, false, err
	}
	if r.hasOS {
		buf.WriteString("\nvar _ os.FileMode // keep the os import used after interposition\n")
	}
	buf.WriteString(keep)
	if err := os.MkdirAll(filepath.Dir(out), 0o755); err != nil {
		return nil, false, err
	}
	if err := os.WriteFile(out, buf.Bytes(), 0o644); err != nil {
		return nil, false, err
	}
	return r.sites, true, nil
}

func main() {
	if len(os.Args) < 4 {
		fmt.Fprintln(os.Stderr, "usage: instrument <repo> <outdir> <pkgdir[:fs]>...")
		os.Exit(2)
	}
	repo, outdir := os.Args[1], os.Args[2]
	replace := map[string]string{}
	var allSites []string
	for _, spec := range os.Args[3:] {
		fsRewrite, postcall, netRewrite := false, false, false
		parts := strings.Split(spec, ":")
		pkg := parts[0]
		for _, fl := range parts[1:] {
			switch fl {
			case "fs":
				fsRewrite = true
			case "postcall":
				postcall = true
			case "net":
				netRewrite = true
			}
		}
		ents, err := os.ReadDir(filepath.Join(repo, pkg))
		if err != nil {
			fmt.Fprintln(os.Stderr, "instrument:", err)
			os.Exit(2)
		}
		for _, e := range ents {
			n := e.Name()
			if e.IsDir() || !strings.HasSuffix(n, ".go") || strings.HasSuffix(n, "_test.go") {
				continue
			}
			in := filepath.Join(repo, pkg, n)
			out := filepath.Join(outdir, pkg, n)
			sites, changed, err := instrumentFile(in, out, fsRewrite, postcall, netRewrite)
			if err != nil {
				fmt.Fprintf(os.Stderr, "instrument: %s: %v\n", in, err)
				os.Exit(2)
			}
			if changed {
				replace[in] = out
				for _, s := range sites {
					allSites = append(allSites, pkg+"/"+s)
				}
			}
		}
	}
	sort.Strings(allSites)
	_ = os.WriteFile(filepath.Join(outdir, "sites.txt"), []byte(strings.Join(allSites, "\n")+"\n"), 0o644)
	b, _ := json.MarshalIndent(replace, "", " ")
	fmt.Println(string(b))
}
