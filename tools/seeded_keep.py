#!/usr/bin/env python3
"""seeded_keep.py <id> <PROP> <worktree> <demo-file-in-MUTANT> <pkg-dir> <run-pattern> <needs> <check_result>
Copies a sub-agent's change from <worktree>/MUTANT into /verif/seeded/<id>/, re-confirms it
(tools/seeded_verify.sh: compiles, suite passes, demo fails with / passes without) and writes meta.json."""
import json, os, shutil, subprocess, sys
sid, prop, wt, demo, pkg, pat, needs, result = sys.argv[1:9]
dst = f"/verif/seeded/{sid}"
os.makedirs(dst, exist_ok=True)
# regenerate the patch from the worktree itself (sources only)
diff = subprocess.run(["git", "-C", wt, "diff", "--", ".", ":(exclude)MUTANT"], capture_output=True, text=True).stdout
open(f"{dst}/patch.diff", "w").write(diff)
demo_dst = demo if demo.endswith(".txt") else demo + ".txt"
shutil.copy(f"{wt}/MUTANT/{demo}", f"{dst}/{demo_dst}")
if os.path.exists(f"{wt}/MUTANT/README.md"):
    shutil.copy(f"{wt}/MUTANT/README.md", f"{dst}/README.md")
out = subprocess.run(["/verif/tools/seeded_verify.sh", sid, f"{dst}/patch.diff", f"{dst}/{demo_dst}", pkg, pat], capture_output=True, text=True)
txt = out.stdout + out.stderr
print(txt)
def st(key):
    for l in txt.splitlines():
        if l.startswith(key):
            return "PASS" if "PASS" in l else "FAIL"
    return "?"
meta = {"id": sid, "breaks_property": prop, "needs_to_manifest": needs,
        "origin": "fresh sub-agent (round " + os.environ.get("ROUND", "4") + ") given only the property text and a scratch worktree of /repo",
        "confirmed": {"cmd": f"tools/seeded_verify.sh <id> patch.diff {demo_dst} {pkg} {pat}",
                      "suite_with_change": st("suite with change"), "demo_with_change": st("demo with change"),
                      "demo_without_change": st("demo without change")},
        "check_result": result, "run_cmd": f"tools/seeded_run.sh seeded/{sid} {prop}"}
json.dump(meta, open(f"{dst}/meta.json", "w"), indent=1)
ok = meta["confirmed"] == {**meta["confirmed"], "suite_with_change": "PASS", "demo_with_change": "FAIL", "demo_without_change": "PASS"}
print("CONFIRMED" if ok else "NOT CONFIRMED")
