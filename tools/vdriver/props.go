package main

import "time"

func registerProps() {
	reg(&propDef{
		ID: "C11", Pkg: "internal/peers", Level: "exploration",
		Quick: 40000, Thorough: 3000000, QuickWall: 90 * time.Second, ThorWall: 25 * time.Minute,
		Rule: "each run = one seeded script set (2-6 actors issuing Add/remove/re-Add with the same peer id/CloseSession/List/Broadcast/BroadcastExcept/SendTo on 1-2 sessions, send functions that succeed, fail or block) x one seeded schedule (random walk, weighted walk or PCT with 0-3 priority change points, optional clock stalls) over the generated yield points of hub.go; a run counts as non-trivial when it took more than 10 scheduling steps and as distinct by the hash of its decision log",
		Real:   []string{"internal/peers.Hub (instrumented copy of the current working tree)", "pkg/protocol"},
		Stub:   []string{"send functions / closeFn (harness closures standing in for the WebSocket writer)", "callers (scripts instead of cmd/thruserv handlers; those run in C10)"},
		Assume: []string{"code between two generated yield points of one goroutine contains no synchronisation other than unlock/atomic operations", "porcupine timeouts (Unknown) are counted, never reported"},
	})
}
