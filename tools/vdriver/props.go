package main

import "time"

func registerProps() {
	reg(&propDef{
		ID: "C11", Pkg: "internal/peers", Level: "exploration",
		Quick: 40000, Thorough: 3000000, QuickWall: 90 * time.Second, ThorWall: 25 * time.Minute,
		Rule:   "each run = one seeded script set (2-6 actors issuing Add/remove/re-Add with the same peer id/CloseSession/List/Broadcast/BroadcastExcept/SendTo on 1-2 sessions, send functions that succeed, fail or block) x one seeded schedule (random walk, weighted walk or PCT with 0-3 priority change points, optional clock stalls) over the generated yield points of hub.go; a run counts as non-trivial when it took more than 10 scheduling steps and as distinct by the hash of its decision log",
		Real:   []string{"internal/peers.Hub (instrumented copy of the current working tree)", "pkg/protocol"},
		Stub:   []string{"send functions / closeFn (harness closures standing in for the WebSocket writer)", "callers (scripts instead of cmd/thruserv handlers; those run in C10)"},
		Assume: []string{"code between two generated yield points of one goroutine contains no synchronisation other than unlock/atomic operations", "porcupine timeouts (Unknown) are counted, never reported"},
	})

	txReal := []string{"internal/transfer: SendManifestMultiStream, RecvManifestMultiStream, multiConn, sidecar, control/data protocol (instrumented copy of the current working tree)", "internal/scheduler", "internal/bufpool", "pkg/manifest Scan/ScanPaths", "OS file system (real syscalls behind the interposition layer, per-run scratch directory)"}
	txStub := []string{"QUIC connection: SimNet stream-level model (DESIGN.md 2.4) instead of transferquic/quic-go", "app shell around the engines (sender closes with code 0 when the engine returns; receiver process exits without closing)", "path resolver for selection mode (join with the source root; buildPathResolver lives in package app)"}
	txAssume := []string{"SimNet models QUIC stream semantics as pinned in DESIGN.md 2.4 (stream visibility, close discards unread data, idle timeout 30 s)", "code between two generated yield points of one goroutine contains no synchronisation other than unlock/atomic operations", "one monotone fake clock for both nodes (no skew)"}
	t2Real := []string{"internal/transfer engines (SendManifestMultiStream, RecvManifestMultiStream, multiConn)", "internal/transferquic (real adapter: streams, deadlines, close)", "quic-go v0.58.0 and crypto/tls (real, not instrumented)", "internal/app.authenticateTransport with the real TLS exporter", "pkg/manifest.Scan", "OS file system"}
	t2Stub := []string{"UDP: SimUDP, one path with drawn latency (0-200 ms one way) and optional 1-5 % loss, timer-driven on the fake clock", "app shell around the engines (sender closes its connections with code 0 when the engine returns; the receiver process just ends)", "extra connections are dialled on the same quic.Transport (dialExtraConns opens real UDP sockets and cannot run)"}
	t2Assume := []string{"no scheduler: interleavings come from latency, loss and quic-go's own timers; replay reproduces the outcome, stability is measured for every reported violation", "GOMAXPROCS=1; the generated lock sites of the engines poll with durable sleeps so that the bubble's clock keeps moving"}
	t2Part := func(id string, quick, thorough int, rule string) *propDef {
		return &propDef{ID: id, Pkg: "internal/app", Level: "exploration", Unscheduled: true, Env: []string{"GOMAXPROCS=1", "GODEBUG=asyncpreemptoff=1"},
			Quick: quick, Thorough: thorough, QuickWall: 4 * time.Minute, ThorWall: 20 * time.Minute, Rule: rule, Real: t2Real, Stub: t2Stub, Assume: t2Assume}
	}
	reg(&propDef{
		Parts: []*propDef{t2Part("C03T2", 400, 12000, "tier T2 confirmation: the same engines over the real transferquic adapter and real quic-go on SimUDP (0-6 files with sizes around chunk boundaries, nesting, empty directory, chunk 64 B-16 KiB, 1-6 streams, 1-2 connections, resume per side, hash algorithm, root-dir mode, one-way latency 0-200 ms, optional loss), fault-free: both must return nil within 16 simulated minutes; one spec in 23 is the manifest without files (listed finding), which must show the same signature here as on the stream-level model")},
		ID: "C03", Pkg: "internal/transfer", Level: "exploration",
		Quick: 6000, Thorough: 300000, QuickWall: 5 * time.Minute, ThorWall: 40 * time.Minute,
		Rule: "each run = one seeded workload (0-6 files with sizes around chunk boundaries, nesting, empty directories, legal odd names; chunk size 1 B-16 KiB; 1-8 streams; 1-4 connections; resume per side; hash algorithm; root-dir and scan mode; QUIC role; segment size; flow-control window) x one seeded schedule (random/weighted/PCT/FIFO, clock stalls, starve-one) with NO faults; non-trivial = more than 50 scheduling steps, distinct by decision-log hash",
		Real: txReal, Stub: txStub, Assume: txAssume,
	})
	reg(&propDef{
		Parts: []*propDef{{ID: "C01H2", Pkg: "internal/transfer", Level: "exploration", Quick: 3000, Thorough: 150000, QuickWall: 4 * time.Minute, ThorWall: 25 * time.Minute,
			Rule:   "one host process serving two receivers at once: two sender engines in the same simulated process (sharing its read pool and chunk buffer pools) each transfer their own tree (1-3 files of 1-6 chunks, chunk 64 B-1 KiB, 1-3 streams, 1-3 read-pool workers) to a receiver process of its own; in three quarters of the runs transfer 1 is cancelled at a drawn delivery (its receiver left), transfer 2 is never disturbed; seeded schedule over the generated yield points; oracle: if both ends of transfer 2 report success its tree equals its source",
			Real:   txReal, Stub: txStub, Assume: txAssume},
			{ID: "C01BIG", Pkg: "internal/transfer", Level: "exploration", Quick: 64, Thorough: 2000, QuickWall: 4 * time.Minute, ThorWall: 15 * time.Minute,
				Rule:   "one file of 4 GiB + (1 byte ... two chunks), chunk size 1-4 MiB, as sparse files: source and partial output hold pseudo-random bytes only in the first chunk, the last chunk below 2^32 and everything above; the output directory is a prior state with every chunk below (or one chunk below) the 4 GiB mark present and marked in a sidecar written with the engine's own sidecar API, so only the chunks near and above 2^32 travel; 1-3 streams, hash algorithm drawn, seeded schedule; oracle: both ends succeed => same length and the same bytes in all non-hole regions",
				Real:   txReal, Stub: txStub, Assume: append([]string{"the scratch file system supports sparse files"}, txAssume...)},
			t2Part("C01T2", 400, 12000, "tier T2 confirmation: the generator of C03's T2 part; runs in which both engines return nil are judged: digest of the output directory (paths, types, sizes, SHA-256) = digest of the generated source tree")},
		ID: "C01", Pkg: "internal/transfer", Level: "exploration",
		Quick: 6000, Thorough: 300000, QuickWall: 5 * time.Minute, ThorWall: 40 * time.Minute,
		Rule: "same generator as C03 (fault-free, all configurations and schedules; a fifth of the runs resume from a healthy prior state written directly, a sixth receive into a directory that already holds older copies of some files with other content and other lengths and no metadata); only runs in which both engines returned nil are judged (the others are counted as outside the property's scope); oracle: digest of the output directory = digest of the generated source tree, nothing else present except the resume-metadata directory",
		Real: txReal, Stub: txStub, Assume: txAssume,
	})
	reg(&propDef{
		ID: "C17", Pkg: "internal/transfer", Level: "exploration",
		Quick: 6000, Thorough: 300000, QuickWall: 5 * time.Minute, ThorWall: 40 * time.Minute,
		Rule: "same generator as C03; oracle over the sender's wire history (every Write stamped with the scheduler step, decoded with the repo's decoders): one FileBegin per file, no (file,chunk) frame twice except the verified chunk once more, one FileEnd per file after its last chunk write, nothing after FileEnd, every needed chunk written or advertised; resumed runs from directly written prior states with the highest marked chunk torn on disk make up a share of the runs, and there the chunk that must fail verification (torn by the harness, named by the receiver as its verification point, advertised as present) must be written by the sender",
		Real: txReal, Stub: txStub, Assume: txAssume,
	})
	reg(&propDef{
		Parts: []*propDef{t2Part("C02T2", 300, 8000, "tier T2 confirmation: the generator of C03's T2 part with at least one file; each spec is run fault-free over real quic-go to learn its duration and then again with one fault at a drawn fraction of it: path blackholed in both directions (abrupt loss), connection closed with code 0 by the sender's or the receiver's side, context of the sender or the receiver cancelled; per side: error, or success only with a complete identical tree at the receiver; both return within 12 simulated minutes of the fault")},
		ID: "C02", Pkg: "internal/transfer", Level: "fault_enumeration",
		Quick: 3000, Thorough: 120000, QuickWall: 6 * time.Minute, ThorWall: 45 * time.Minute,
		Rule: "each run = one seeded workload/configuration/schedule (as C03, 1-4 files) executed once fault-free to count its deliveries, then again with 1-2 faults: graceful close(0) by either side, abrupt loss, context cancel of sender or receiver, bit flip in chunk payload or CRC field, source file shrunk/unlinked after the scan, output path obstructed, n-th receiver file operation failing with ENOSPC/EIO/EACCES; connection-level faults are anchored to a delivery index of the fault-free execution (drawn per run; in the thorough tier every 10th spec places its fault at EVERY delivery index 0..D); non-trivial = a fault actually fired; distinct by decision-log hash",
		Real: txReal, Stub: txStub, Assume: append([]string{"bit flips model a corrupting peer/NIC below the chunk CRC; QUIC itself authenticates packets"}, txAssume...),
	})
	resumeRule := "each run = a history: 1-3 interrupted runs (receiver killed at a drawn crash point = file-system or network operation of the receiver process, optionally tearing the operation in flight - os.WriteFile counts as two operations, open+truncate and write -; receiver interrupted by a signal there instead: its handler flushes every sidecar and exits while the other goroutines go on; sender killed; abrupt loss; close; cancel; in a quarter of the histories the interrupted runs use another chunk size than the final run, preferably one with the same chunk count), each with its own seeded schedule biased to let the 1 s sidecar flusher tick between the steps of the data readers, on 1-4 files of 1-8 chunks with resume enabled; positions are fractions of the crash points counted in a crash-free execution of the same schedule; in the thorough tier every 20th spec kills the receiver at EVERY file-system crash point of one schedule"
	reg(&propDef{
		ID: "C04", Pkg: "internal/transfer", Level: "fault_enumeration",
		Quick: 2000, Thorough: 80000, QuickWall: 6 * time.Minute, ThorWall: 45 * time.Minute,
		Rule: resumeRule + "; then a healthy resumed run into the same output directory: it must succeed on both sides with a tree identical to the source, and the first FileResumeInfo per file must advertise at least the chunks marked in the sidecar found after the kill",
		Real: txReal, Stub: txStub, Assume: append([]string{"crash = kill -9 of one process: its memory is lost, everything its completed system calls wrote survives (no power-loss reordering; the code never syncs)"}, txAssume...),
	})
	reg(&propDef{
		ID: "C05", Pkg: "internal/transfer", Level: "fault_enumeration",
		Quick: 2500, Thorough: 80000, QuickWall: 6 * time.Minute, ThorWall: 45 * time.Minute,
		Rule: resumeRule + "; oracle evaluated on every crash image: each sidecar the repo's LoadSidecar accepts and whose identity matches a manifest file marks only chunks whose bytes in the output file equal the source; each sidecar path holds exactly the version installed by the last completed rename/write, and every version a rename installs over a valid one is itself a complete record by the harness' own reader of the format (atomic replacement)",
		Real: txReal, Stub: txStub, Assume: append([]string{"crash = kill -9 of one process: its memory is lost, everything its completed system calls wrote survives; a rename is atomic, a write may be torn at any byte"}, txAssume...),
	})
	reg(&propDef{
		ID: "C06", Pkg: "internal/transfer", Level: "exploration",
		Quick: 2000, Thorough: 80000, QuickWall: 6 * time.Minute, ThorWall: 45 * time.Minute,
		Rule: resumeRule + "; then 1-2 storage damages applied to the state left behind (sidecar truncated at a drawn length, single bit flipped, garbage, well-formed all-complete sidecar of another size / chunk size / id, stale all-complete sidecar, .tmp leftover, data file deleted or shortened with the sidecar present, sidecar only at the fallback location of a receiver without root directory, highest marked chunk torn; prior states are also written directly with every bitmap shape; in a sixth of the histories the damage falls between two interrupted runs), then a healthy resumed run: identical tree or a loud failure, never success with a different tree",
		Real: txReal, Stub: txStub, Assume: txAssume,
	})
	reg(&propDef{
		ID: "C07", Pkg: "internal/transfer", Level: "exploration",
		Quick: 4000, Thorough: 150000, QuickWall: 5 * time.Minute, ThorWall: 30 * time.Minute,
		Rule:   "each run = the real RecvManifestMultiStream against a scripted sender over SimNet whose framing is well-formed but whose manifest.root, directory rel_path, file rel_path, item id or FileBegin.rel_path (1-2 fields per run) carry hostile strings (parent references, absolute paths into the sandbox, smuggled separators, NUL, backslashes, the resume-metadata directory) next to benign controls; both root-dir modes, resume on/off, seeded segmentation and schedule; the output directory sits in a per-run sandbox with decoy files; non-trivial = more than 20 scheduling steps, distinct by decision-log hash",
		Real:   []string{"internal/transfer.RecvManifestMultiStream and everything below it (instrumented copy of the current working tree)", "OS file system behind the interposition layer (every path the receiver touches is logged)"},
		Stub:   []string{"sender: byte script built with the repo's encoders (FileBegin hand-encoded because the encoder validates paths)", "QUIC: SimNet"},
		Assume: []string{"hostile strings come from a fixed pool of escape patterns (input generation is plain seeded generation; the simulator contributes the peer, sandbox accounting and schedule)", "Unix path semantics"},
	})
	reg(&propDef{
		ID: "C15", Pkg: "internal/transfer", Level: "exploration", MemLimitKB: 3 * 1024 * 1024,
		Quick: 4000, Thorough: 150000, QuickWall: 5 * time.Minute, ThorWall: 30 * time.Minute,
		Rule:   "each run = a healthy small transfer is recorded in the simulator (all streams, both directions), 1-2 seeded mutations are applied to the transcript (truncation at a drawn byte, byte set to 0/255/+-1, 16/32-bit fields overwritten with 0 or all-ones, duplicated/dropped/inserted ranges, record type bytes replaced at record boundaries, wrong magic, absurd values in manifest-length / frame index / frame length fields, chunk size 0, well-formed but inconsistent FileResumeInfo records, well-formed chunk frames with a valid checksum that do not fit the announced file: data for an empty file, last chunk at full chunk size, short chunk, index beyond the file, the same chunk twice, a well-formed manifest with an absurd number, well-formed credit / resume / file-done records inserted with drawn counts, and a cross-stream rewrite in which one manifest file is announced, sent and ended twice and another never) and the result is replayed by a scripted peer against the real receiver (2/3) or the real sender (1/3) with seeded segmentation; the script FINs every stream and optionally closes the connection; non-trivial = a mutation applied and more than 10 scheduling steps, distinct by decision-log hash",
		Real:   []string{"internal/transfer decoders, RecvManifestMultiStream, SendManifestMultiStream (instrumented copy of the current working tree)"},
		Stub:   []string{"peer: byte script derived from a recorded healthy run", "QUIC: SimNet"},
		Assume: []string{"memory is judged by the Go runtime's TotalAlloc delta of the worker process over the run (limit 64 x bytes received + 48 MiB); a worker process runs one simulation at a time", "mutations are ordinary seeded mutation; the simulator contributes end-of-input semantics, segmentation and hang detection on the fake clock"},
	})
	reg(&propDef{
		ID: "C12", Pkg: "internal/app", Level: "exploration",
		Quick: 30000, Thorough: 2000000, QuickWall: 4 * time.Minute, ThorWall: 30 * time.Minute,
		Rule:   "each run = one seeded event script (3-16 events over 1-5 receivers: join, accept (also repeated), leave, rejoin, transfer success/failure, cleanup tick, 11-minute clock jump) for max-receivers 1-3, issued by an event-loop goroutine to the real SnapshotSender while the transfer goroutines it starts run a simulated transfer function; one seeded schedule (random/weighted/PCT/FIFO) over the generated yield points; non-trivial = more than 10 scheduling steps, distinct by decision-log hash",
		Real:   []string{"internal/app.SnapshotSender: handleEnvelope, handlePeerJoined, handleManifestAccept, handlePeerLeft, maybeStartTransfers, runTransfer, cleanup (instrumented copy of the current working tree)"},
		Stub:   []string{"transferFn (simulated transfer that ends when the script says so or when its context is cancelled)", "signaling connection (nil: TransferStart/TransferQueued messages are not sent)", "event source (script instead of the WebSocket read loop)"},
		Assume: []string{"events reach the sender from one event-loop goroutine, as in RunSnapshotSender; concurrency comes from the transfer goroutines"},
	})
	reg(&propDef{
		Parts: []*propDef{{ID: "C08T2", Pkg: "internal/app", Level: "exploration", Unscheduled: true, Env: []string{"GOMAXPROCS=1", "GODEBUG=asyncpreemptoff=1"},
			Quick: 300, Thorough: 6000, QuickWall: 3 * time.Minute, ThorWall: 10 * time.Minute,
			Rule:   "tier T2 part: the real authenticateTransport over real transferquic connections on real QUIC/TLS sessions (SimUDP, fake clock): honest pair with the same code (must accept), honest pair with different codes, an attacker that terminates TLS towards both victims and carries the authentication bytes across (same and different codes), an attacker that sends the sender's own proof back (role byte kept or rewritten): the honest ends must reject",
			Real:   []string{"internal/app.authenticateTransport", "internal/transferquic (streams, ExportKeyingMaterial)", "quic-go v0.58.0, crypto/tls exporter (real)"},
			Stub:   []string{"UDP: SimUDP", "attacker: harness code on raw quic-go connections"},
			Assume: []string{"no scheduler in this part; outcomes (accept/reject per end) are what a replay reproduces"}}},
		
		ID: "C08", Pkg: "internal/app", Level: "fault_enumeration",
		Quick: 12000, Thorough: 600000, QuickWall: 4 * time.Minute, ThorWall: 30 * time.Minute,
		Rule:   "each run = one scenario: honest pair on one session (codes equal / different / empty / prefix / case variant), optionally with one alteration of one authentication message - the 2 x (400 single-bit flips + 50 truncations) alterations are walked systematically by run index, so 900 consecutive direct-topology runs cover all of them; or an attacker without the code relaying / replaying (proofs captured from an earlier session with the same code) / reflecting between two sessions; or a rogue dialer or rogue listener that follows the protocol with a drawn code (including the right one, as positive control), replays, reflects, swaps roles, sends random proofs or stays silent; seeded segmentation (1 byte ... whole message) and schedule; distinct by decision-log hash",
		Real:   []string{"internal/app.authenticateTransport, authAsSender, authAsReceiver, deriveAuthKey, message codec (instrumented copy of the current working tree)"},
		Stub:   []string{"TLS exporter: SimNet gives both ends of a simulated session the same random keying material and different sessions different material (real TLS exporter values are not exercised here)", "attackers: scripts", "runICEQUICTransfer / runTransfer / acceptExtraConns call sites (not simulated: the order of authentication and transfer there is not evidence of this check)"},
		Assume: []string{"HMAC-SHA256 and the TLS exporter are not attacked; the check is about the protocol logic around them"},
	})
	t3Real := []string{"cmd/thruserv main(), /session and /ws handlers, limiters, turnIssuer (instrumented copy of the current working tree, started from its real main with per-run flags)", "internal/peers.Hub, internal/session.Store, internal/config flag parsing", "net/http server and client, gorilla/websocket (real, not instrumented)"}
	t3Stub := []string{"TCP: SimTCP (every connection set-up and segment delivery is a scheduler event; fake clock)", "crypto/rand.Reader: seeded reader"}
	t3Assume := []string{"net/http and gorilla/websocket goroutines are not instrumented: between two scheduler events they run freely; replay exactness is measured by the determinism self-test, not guaranteed", "one fake clock for server and clients"}
	reg(&propDef{
		ID: "C16", Pkg: "cmd/thruserv", Level: "exploration",
		Quick: 2500, Thorough: 100000, QuickWall: 5 * time.Minute, ThorWall: 30 * time.Minute,
		Rule: "each run = one server configuration drawn from the grid {12 limit/timeout flags x (default, small, 0)} x TURN off / 1-2 TURN URLs in 8 spellings with a secret and optional credential TTL, peer ids with URL-significant characters, client max_receivers 0/1/4; the real clienthttp.CreateSession, buildWebSocketURL and wsclient.Dial run for a host and a receiver against the real server; the credentials the server pushes are parsed with the client's parseTurnServer and compared with what the configured secret and URL mean (user, secret, host:port, transport, TLS, server name, and the expiry in the user name = simulated now + configured TURN lifetime, whatever the session timeout); after connecting, receiver and host exchange one addressed message each way and no connection may be ended by the server while its client is there; no faults; distinct by decision-log hash",
		Real: append([]string{"internal/clienthttp.CreateSession, internal/app.buildWebSocketURL, internal/wsclient.Dial/ReadLoop, internal/ice.parseTurnServer (through overlay shims)"}, t3Real...), Stub: t3Stub, Assume: t3Assume,
	})
	reg(&propDef{
		ID: "C14", Pkg: "cmd/thruserv", Level: "exploration",
		Quick: 3000, Thorough: 120000, QuickWall: 5 * time.Minute, ThorWall: 30 * time.Minute,
		Rule: "each run = one scenario against the real server started with the flags under test: join-code lifetime (connect at creation, 1 ms before and 1 ms / 2 s after expiry for lifetimes 1 s ... 24 h on the fake clock; connect while the host is connected, 30 s in, and 1 s after it disconnected), uniqueness among 20-50 live sessions with a join-code random source reduced to 256 codes, concurrent bursts of session creations / receivers of one host / WebSocket connections against limits 1-3 and against 0 (disabled: all must pass), message sizes around --max-message-bytes, message bursts against --ws-msgs-per-sec/--ws-msgs-burst, --max-message-bytes 0 with messages above 64 KiB, receivers reconnecting under their id at the receiver limit, and the per-address rates --session-creates-per-min / --ws-connects-per-min across an idle gap of 30-150 s (admitted <= burst + rate x elapsed, at least one admitted); seeded schedule over the server's generated yield points and the SimTCP events; distinct by decision-log hash",
		Real: t3Real, Stub: append([]string{"clients: harness goroutines using net/http and raw gorilla connections"}, t3Stub...), Assume: t3Assume,
	})
	reg(&propDef{
		ID: "C10", Pkg: "cmd/thruserv", Level: "exploration",
		Quick: 2500, Thorough: 100000, QuickWall: 5 * time.Minute, ThorWall: 30 * time.Minute,
		Rule:   "each run = 1-3 sessions with a host and 0-3 receivers each (some reconnecting with a duplicate peer id), every client a scripted raw WebSocket connection that sends addressed, broadcast, spoofed-from, foreign-session-id, malformed and id-less messages (each valid one with a unique token), sleeps, stalls its inbound path, closes or resets; at most ~100 messages per recipient, except in flood runs (one in thirteen): the server's simulated sockets have a 16 KiB send buffer, one client stalls another's path from the server, sends it 380-580 addressed messages, heals the path and sends five more, so that the recipient's writer blocks and its 256-slot queue in the hub overflows (there nothing is must-deliver; isolation, from, duplicates and order are judged as everywhere); every client act is a scheduling point; all against the real server main over SimTCP under a seeded schedule; non-trivial = more than 50 scheduling steps, distinct by decision-log hash",
		Real: t3Real, Stub: append([]string{"clients: scripted raw gorilla connections (wsclient runs in C16)"}, t3Stub...), Assume: append([]string{"must-deliver is asserted only for a recipient that had received its peer_list before the message was sent, kept its connection to the end, has a peer id unique in its session, and whose author also stayed connected; everything else is 'may'"}, t3Assume...),
	})
	reg(&propDef{
		ID: "C09", Pkg: "internal/app", Level: "exploration", Unscheduled: true, Env: []string{"GOMAXPROCS=1", "GODEBUG=asyncpreemptoff=1"},
		Quick: 1200, Thorough: 40000, QuickWall: 6 * time.Minute, ThorWall: 40 * time.Minute,
		Rule:   "each run = one listener reachable through 1-4 candidate paths (alias addresses with their own up/down latency 1-100 ms, one in six 0.3-2.4 s - a third of the extra paths get the same round trip as the first, split differently -, optional loss 2-30 % and blackholing; paths may be offered relay-prefixed), candidate list optionally with a duplicate, a turn:-prefixed alias and unroutable entries; the real Prober.ProbeAndDial and real quic-go/TLS run over SimUDP on the fake clock, followed by the real authenticateTransport on both committed ends; a quarter of the runs are driven by the seeded scheduler over the generated yield points of internal/ice and internal/app (quic-go runs freely between two steps), the others are unscheduled; oracles that need a deadline to be ample (dial must succeed, auth must succeed, losers closed) are judged only on loss-free paths with a round trip of at most 3 s (or at most 200 ms with up to 10 % loss for auth); non-trivial = more than one path; distinct by (seed, observed outcome)",
		Real:   []string{"internal/ice.Prober.ProbeAndDial", "quic-go v0.58.0, crypto/tls (real, not instrumented)", "internal/transferquic, internal/quictransport configs", "internal/app.authenticateTransport with the real TLS exporter"},
		Stub:   []string{"UDP: SimUDP (timer-driven delivery on the fake clock; per-path NAT-like source addresses)", "accepting side: transcription of snapshotReceiver.runTransfer's acceptOnce (first accepted connection is primary) - the real function cannot run in the simulator", "ice.NewProber, STUN, TURN: not run (candidate lists are supplied by the harness)"},
		Assume: []string{"no scheduler is installed in this tier: interleavings come from latencies/loss; replay reproduces the outcome (path choices, auth results), not a decision log", "the receiver's own delayed dial-back (500 ms) is not modelled"},
	})
}
