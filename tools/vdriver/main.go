// vdriver: build -> run workers -> aggregate -> evidence -> exit code.
//
//	vdriver setup
//	vdriver check <PROP> [quick|thorough]
//	vdriver replay <PROP> <file>
//	vdriver determinism <PROP> [runs]
//
// Exit codes: 0 property held on everything explored (possibly KNOWN-FINDING
// lines), 1 violation (a VIOLATION line was printed), 2 infrastructure trouble.
package main

import (
	"crypto/sha256"
	"encoding/hex"
	"encoding/json"
	"fmt"
	"io"
	"os"
	"os/exec"
	"path/filepath"
	"runtime"
	"sort"
	"strconv"
	"strings"
	"sync"
	"syscall"
	"time"
)

// repoDir is /repo; VERIF_REPO points the driver at a scratch worktree instead
// (development aid for running the checks against a seeded change without
// touching /repo: build output, evidence and replays then go to build/alt).
var repoDir = func() string {
	if d := os.Getenv("VERIF_REPO"); d != "" {
		return d
	}
	return "/repo"
}()

const (
	goRoot  = "/opt/veriftools/go1.26.8"
	goBin   = goRoot + "/bin/go"
)

// verifDir is /verif, or the snapshot directory when started through `vp run`.
var verifDir = func() string {
	if d := os.Getenv("VERIF_DIR"); d != "" {
		return d
	}
	return "/verif"
}()

var buildDir = func() string {
	if os.Getenv("VERIF_REPO") != "" {
		return filepath.Join(verifDir, "build", "alt", sanitize(os.Getenv("VERIF_REPO")))
	}
	return filepath.Join(verifDir, "build")
}()

// outDir holds evidence/ and replays/: /verif itself, or the alt build directory.
var outDir = func() string {
	if os.Getenv("VERIF_REPO") != "" {
		return buildDir
	}
	return verifDir
}()

type propDef struct {
	ID         string
	Pkg        string // repo-relative package dir whose test binary hosts the harness
	Level      string
	Quick      int // runs
	Thorough   int
	QuickWall  time.Duration
	ThorWall   time.Duration
	Rule       string
	Real       []string
	Stub       []string
	Assume     []string
	MemLimitKB int // address-space limit of each worker process (0 = none)
	Env        []string // extra environment of the worker processes
	Unscheduled bool    // tier T2: no scheduler, replay reproduces outcomes only (stability is measured)
	// Parts: further harnesses that belong to the same check (e.g. a confirmation of
	// the same property on another tier). Each has its own worker id (VERIF_PROP),
	// package, budgets and environment; violations, counters and evidence are merged.
	Parts []*propDef
}

var props = map[string]*propDef{}

func reg(p *propDef) { props[p.ID] = p }

func fatal2(format string, a ...any) {
	fmt.Fprintf(os.Stderr, "vdriver: "+format+"\n", a...)
	os.Exit(2)
}

func goEnv() []string {
	env := os.Environ()
	var out []string
	for _, e := range env {
		if strings.HasPrefix(e, "GOFLAGS=") || strings.HasPrefix(e, "GOPROXY=") || strings.HasPrefix(e, "GOSUMDB=") || strings.HasPrefix(e, "GOTOOLCHAIN=") || strings.HasPrefix(e, "GOROOT=") {
			continue
		}
		out = append(out, e)
	}
	return append(out, "GOFLAGS=-mod=mod", "GOPROXY=off", "GOSUMDB=off", "GOTOOLCHAIN=local", "GOROOT="+goRoot, "CGO_ENABLED=0")
}

func run(dir string, name string, args ...string) (string, error) {
	cmd := exec.Command(name, args...)
	cmd.Dir = dir
	cmd.Env = goEnv()
	b, err := cmd.CombinedOutput()
	return string(b), err
}

// ---------- runtime overlay ----------

type patch struct{ file, old, new string }

var rtPatches = []patch{
	{"runtime/select.go", "j := cheaprandn(uint32(norder + 1))", "j := verifSelectRandn(uint32(norder + 1))"},
	{"runtime/rand.go", "func rand32() uint32 {\n", "func rand32() uint32 {\n\tif s := verifSelectSeed.Load(); s != 0 {\n\t\treturn 0x4C957F2D\n\t}\n"},
	{"runtime/rand.go", "func maps_rand() uint64 {\n", "func maps_rand() uint64 {\n\tif s := verifSelectSeed.Load(); s != 0 {\n\t\treturn 0x5851F42D4C957F2D\n\t}\n"},
	{"runtime/alg.go", "hashkey[i] = uintptr(bootstrapRand())", "hashkey[i] = uintptr(0x9E3779B97F4A7C15 * uint64(i+1))"},
	{"runtime/alg.go", "key[i] = bootstrapRand()", "key[i] = 0x9E3779B97F4A7C15 * uint64(i+1)"},
	// sync.Pool: which item Get returns depends on the P a goroutine happens to run on and on GC
	// timing. In simulation mode every pool is a LIFO free list (one of sync.Pool's legal behaviours).
	{"sync/pool.go", "\tNew func() any\n}\n", "\tNew func() any\n\n\tverifMu   Mutex\n\tverifList []any\n}\n\n// VerifDeterministic switches every Pool to a LIFO free list (simulation builds only).\nvar VerifDeterministic atomic.Bool\n"},
	{"sync/pool.go", "func (p *Pool) Put(x any) {\n\tif x == nil {\n\t\treturn\n\t}\n", "func (p *Pool) Put(x any) {\n\tif x == nil {\n\t\treturn\n\t}\n\tif VerifDeterministic.Load() {\n\t\tp.verifMu.Lock()\n\t\tp.verifList = append(p.verifList, x)\n\t\tp.verifMu.Unlock()\n\t\treturn\n\t}\n"},
	{"sync/pool.go", "func (p *Pool) Get() any {\n", "func (p *Pool) Get() any {\n\tif VerifDeterministic.Load() {\n\t\tp.verifMu.Lock()\n\t\tvar x any\n\t\tif n := len(p.verifList); n > 0 {\n\t\t\tx = p.verifList[n-1]\n\t\t\tp.verifList[n-1] = nil\n\t\t\tp.verifList = p.verifList[:n-1]\n\t\t}\n\t\tp.verifMu.Unlock()\n\t\tif x == nil && p.New != nil {\n\t\t\tx = p.New()\n\t\t}\n\t\treturn x\n\t}\n"},
	// sync.Once: a second caller of Do blocks on the Once's own mutex while the first is
	// inside f - if f parks in the scheduler, the second caller is blocked on a real mutex,
	// which is not a durable block, and the bubble freezes. Instrumented code calls
	// verifsim.OnceDo, which takes that mutex the scheduler-visible way through these.
	{"sync/once.go", "func (o *Once) doSlow(f func()) {\n", "// Verif*: simulation builds only (see verifsim.OnceDo).\nfunc (o *Once) VerifDone() bool    { return o.done.Load() }\nfunc (o *Once) VerifTryLock() bool { return o.m.TryLock() }\nfunc (o *Once) VerifLock()         { o.m.Lock() }\nfunc (o *Once) VerifFinish(f func()) {\n\tdefer o.m.Unlock()\n\tif !o.done.Load() {\n\t\tdefer o.done.Store(true)\n\t\tf()\n\t}\n}\n\nfunc (o *Once) doSlow(f func()) {\n"},
}

func buildRuntimeOverlay(replace map[string]string) {
	rt := filepath.Join(buildDir, "rt")
	must(os.MkdirAll(rt, 0o755))
	src := map[string]string{}
	for _, p := range rtPatches {
		if _, ok := src[p.file]; !ok {
			b, err := os.ReadFile(filepath.Join(goRoot, "src", p.file))
			if err != nil {
				fatal2("runtime overlay: %v", err)
			}
			src[p.file] = string(b)
		}
		if strings.Count(src[p.file], p.old) != 1 {
			fatal2("runtime overlay: pattern %q not found exactly once in %s (toolchain differs from go1.26.8?)", p.old, p.file)
		}
		src[p.file] = strings.Replace(src[p.file], p.old, p.new, 1)
	}
	for f, s := range src {
		must(os.MkdirAll(filepath.Dir(filepath.Join(rt, f)), 0o755))
		must(writeIfChanged(filepath.Join(rt, f), []byte(s)))
		replace[filepath.Join(goRoot, "src", f)] = filepath.Join(rt, f)
	}
	b, err := os.ReadFile(filepath.Join(verifDir, "rt/verif_select.go"))
	must(err)
	must(writeIfChanged(filepath.Join(rt, "verif_select.go"), b))
	replace[filepath.Join(goRoot, "src/runtime/verif_select.go")] = filepath.Join(rt, "verif_select.go")
}

func writeIfChanged(path string, b []byte) error {
	if old, err := os.ReadFile(path); err == nil && string(old) == string(b) {
		return nil
	}
	return os.WriteFile(path, b, 0o644)
}

func must(err error) {
	if err != nil {
		fatal2("%v", err)
	}
}

// ---------- build ----------

var simPkgs = []string{"internal/transfer:fs", "internal/peers", "internal/session", "internal/scheduler", "internal/app:net", "internal/wsclient", "internal/ice:postcall:net", "internal/transport:net", "internal/progress", "cmd/thruserv"}

func lockBuild() func() {
	must(os.MkdirAll(buildDir, 0o755))
	f, err := os.OpenFile(filepath.Join(buildDir, ".lock"), os.O_CREATE|os.O_RDWR, 0o644)
	must(err)
	must(syscall.Flock(int(f.Fd()), syscall.LOCK_EX))
	return func() { syscall.Flock(int(f.Fd()), syscall.LOCK_UN); f.Close() }
}

func hashTree(h io.Writer, root string, filter func(string) bool) {
	var files []string
	filepath.Walk(root, func(p string, info os.FileInfo, err error) error {
		if err != nil {
			return nil
		}
		if info.IsDir() {
			if info.Name() == ".git" || p == buildDir {
				return filepath.SkipDir
			}
			return nil
		}
		if filter(p) {
			files = append(files, p)
		}
		return nil
	})
	sort.Strings(files)
	for _, f := range files {
		b, _ := os.ReadFile(f)
		fmt.Fprintf(h, "%s %d\n", f, len(b))
		h.Write(b)
	}
}

func ensureTools() {
	inst := filepath.Join(buildDir, "bin/instrument")
	out, err := run(filepath.Join(verifDir, "tools/instrument"), goBin, "build", "-o", inst, ".")
	if err != nil {
		fatal2("building instrumenter: %v\n%s", err, out)
	}
}

// build instruments the current /repo tree and compiles the test binary of pkg.
func build(pkg string) string {
	unlock := lockBuild()
	defer unlock()
	must(os.MkdirAll(filepath.Join(buildDir, "bin"), 0o755))
	h := sha256.New()
	isGo := func(p string) bool {
		return strings.HasSuffix(p, ".go") || strings.HasSuffix(p, "go.mod") || strings.HasSuffix(p, "go.sum")
	}
	hashTree(h, repoDir, isGo)
	hashTree(h, filepath.Join(verifDir, "sim"), isGo)
	hashTree(h, filepath.Join(verifDir, "tools"), isGo)
	hashTree(h, filepath.Join(verifDir, "rt"), isGo)
	sum := hex.EncodeToString(h.Sum(nil))
	bin := filepath.Join(buildDir, "bin", strings.ReplaceAll(pkg, "/", "_")+".test")
	stamp := bin + ".stamp"
	if b, err := os.ReadFile(stamp); err == nil && string(b) == sum {
		if _, err := os.Stat(bin); err == nil {
			return bin
		}
	}
	ensureTools()
	gen := filepath.Join(buildDir, "gen")
	os.RemoveAll(gen)
	args := append([]string{repoDir, gen}, simPkgs...)
	cmd := exec.Command(filepath.Join(buildDir, "bin/instrument"), args...)
	cmd.Stderr = os.Stderr
	outb, err := cmd.Output()
	if err != nil {
		fatal2("instrumenter refused the tree: %v", err)
	}
	replace := map[string]string{}
	must(json.Unmarshal(outb, &replace))
	buildRuntimeOverlay(replace)
	// simulator package
	ents, _ := os.ReadDir(filepath.Join(verifDir, "sim/verifsim"))
	for _, e := range ents {
		if strings.HasSuffix(e.Name(), ".go") {
			replace[filepath.Join(repoDir, "internal/verifsim", e.Name())] = filepath.Join(verifDir, "sim/verifsim", e.Name())
		}
	}
	// harness files: sim/harness/<pkg path with _>/file -> repo/<pkg>/file
	hdirs, _ := os.ReadDir(filepath.Join(verifDir, "sim/harness"))
	for _, d := range hdirs {
		if !d.IsDir() {
			continue
		}
		target := harnessTarget(d.Name())
		files, _ := os.ReadDir(filepath.Join(verifDir, "sim/harness", d.Name()))
		for _, f := range files {
			if strings.HasSuffix(f.Name(), ".go") {
				replace[filepath.Join(repoDir, target, f.Name())] = filepath.Join(verifDir, "sim/harness", d.Name(), f.Name())
			}
		}
	}
	ov, _ := json.MarshalIndent(map[string]any{"Replace": replace}, "", " ")
	must(os.WriteFile(filepath.Join(buildDir, "overlay.json"), ov, 0o644))
	// module file with the extra test-only requirement
	gm, err := os.ReadFile(filepath.Join(repoDir, "go.mod"))
	must(err)
	gms := string(gm) + "\nrequire github.com/anishathalye/porcupine v1.3.0\n"
	must(os.WriteFile(filepath.Join(buildDir, "go.mod"), []byte(gms), 0o644))
	gs, _ := os.ReadFile(filepath.Join(repoDir, "go.sum"))
	extra, _ := os.ReadFile(filepath.Join(verifDir, "tools/extra.go.sum"))
	must(os.WriteFile(filepath.Join(buildDir, "go.sum"), append(gs, extra...), 0o644))
	out, err := run(repoDir, goBin, "test", "-c", "-vet=off", "-overlay", filepath.Join(buildDir, "overlay.json"),
		"-modfile", filepath.Join(buildDir, "go.mod"), "-o", bin, "./"+pkg)
	if err != nil {
		fatal2("build of %s failed (instrumented overlay):\n%s", pkg, out)
	}
	must(os.WriteFile(stamp, []byte(sum), 0o644))
	return bin
}

func harnessTarget(dir string) string {
	switch dir {
	case "peers":
		return "internal/peers"
	case "transfer":
		return "internal/transfer"
	case "app":
		return "internal/app"
	case "thruserv":
		return "cmd/thruserv"
	case "ice":
		return "internal/ice"
	case "wsclient":
		return "internal/wsclient"
	case "scheduler":
		return "internal/scheduler"
	}
	return strings.ReplaceAll(dir, "_", "/")
}

// ---------- worker protocol (mirror of verifsim/harness.go) ----------

type Violation struct {
	Property  string          `json:"property"`
	Class     string          `json:"class"`
	Signature string          `json:"signature"`
	Detail    string          `json:"detail"`
	Spec      json.RawMessage `json:"spec"`
	LogHash   string          `json:"log_hash"`
	Steps     int             `json:"steps"`
	Trace     []string        `json:"trace,omitempty"`
	Count     int             `json:"count"`
	Shrunk    int             `json:"shrunk_from_runs,omitempty"`
	RunIndex  int             `json:"run_index"`
	Part      string          `json:"part,omitempty"` // harness part that found it ("" = the main one)
}

type WorkerResult struct {
	Property    string           `json:"property"`
	Worker      int              `json:"worker"`
	Runs        int              `json:"runs"`
	Skipped     int              `json:"skipped"`
	Steps       int64            `json:"steps"`
	SimTimeNs   int64            `json:"sim_time_ns"`
	WallNs      int64            `json:"wall_ns"`
	Hashes      []string         `json:"hashes"`
	QStates     int64            `json:"qstates"`
	Nontrivial  int              `json:"nontrivial"`
	Counters    map[string]int64 `json:"counters"`
	Samples     []any            `json:"samples"`
	Violations  []*Violation     `json:"violations"`
	ReplayMatch *bool            `json:"replay_match,omitempty"`
	Note        string           `json:"note,omitempty"`
	Partial     bool             `json:"partial,omitempty"`
	NextIndex   int              `json:"next_index,omitempty"`
}

type knownFinding struct {
	Property  string `json:"property"`
	Class     string `json:"class"`
	Signature string `json:"signature"`
	Status    string `json:"status"` // known | fixed
	Commit    string `json:"commit,omitempty"`
	What      string `json:"what"`
}

func loadKnown() []knownFinding {
	var k struct {
		Findings []knownFinding `json:"findings"`
	}
	b, err := os.ReadFile(filepath.Join(verifDir, "known_findings.json"))
	if err != nil {
		return nil
	}
	if err := json.Unmarshal(b, &k); err != nil {
		fatal2("known_findings.json: %v", err)
	}
	return k.Findings
}

func seedFromEnv() uint64 {
	if s := os.Getenv("VERIF_SEED"); s != "" {
		if v, err := strconv.ParseUint(s, 10, 64); err == nil {
			return v
		}
		if v, err := strconv.ParseInt(s, 10, 64); err == nil {
			return uint64(v)
		}
	}
	return 20261003
}

// crashSignature extracts a stable description of why a worker process died.
func crashSignature(log string) string {
	for _, line := range strings.Split(log, "\n") {
		l := strings.TrimSpace(line)
		for _, p := range []string{"fatal error:", "panic:", "runtime: out of memory", "signal:"} {
			if strings.HasPrefix(l, p) {
				if strings.Contains(l, "out of memory") {
					// name the repository function that asked for the memory
					site := ""
					for _, fl := range strings.Split(log, "\n") {
						if i := strings.Index(fl, "sheerbytes/internal/"); i >= 0 && !strings.Contains(fl, "verifsim") && !strings.HasPrefix(fl, "\t") {
							site = fl[i+len("sheerbytes/internal/"):]
							if j := strings.IndexByte(site, '('); j > 0 {
								if k := strings.LastIndexByte(site, '('); k > 0 {
									site = site[:k]
								}
							}
							break
						}
					}
					// the per-node pool shim stands in for chunkPoolFor in simulation builds
					site = strings.Replace(site, "verifChunkPoolFor", "chunkPoolFor", 1)
					return "fatal error: out of memory @" + site
				}
				if len(l) > 90 {
					l = l[:90]
				}
				return l
			}
		}
	}
	return "worker process died without a Go fatal message (killed?)"
}

func mergeResult(dst, src *WorkerResult) {
	if dst.Counters == nil {
		dst.Counters = map[string]int64{}
	}
	dst.Runs += src.Runs
	dst.Skipped += src.Skipped
	dst.Steps += src.Steps
	dst.SimTimeNs += src.SimTimeNs
	dst.QStates += src.QStates
	dst.Nontrivial += src.Nontrivial
	for k, v := range src.Counters {
		dst.Counters[k] += v
	}
	dst.Hashes = append(dst.Hashes, src.Hashes...)
	if len(dst.Samples) < 3 {
		dst.Samples = append(dst.Samples, src.Samples...)
	}
	dst.Violations = append(dst.Violations, src.Violations...)
	if src.Note != "" {
		dst.Note += src.Note + " "
	}
	if src.ReplayMatch != nil {
		dst.ReplayMatch = src.ReplayMatch
	}
}

func runWorkers(bin string, p *propDef, mode, tier string, seed uint64, runs int, maxWall time.Duration, workers int, replay string, extraEnv []string) ([]*WorkerResult, error) {
	rdir := filepath.Join(buildDir, "run", fmt.Sprintf("%s-%08x", p.ID, uint32(os.Getpid())*2654435761+uint32(time.Now().UnixNano()))) // fixed length: paths travel inside simulated messages
	os.RemoveAll(rdir)
	must(os.MkdirAll(rdir, 0o755))
	if os.Getenv("VERIF_KEEP") == "" {
		defer os.RemoveAll(rdir)
	}
	results := make([]*WorkerResult, workers)
	errs := make([]error, workers)
	var wg sync.WaitGroup
	for w := 0; w < workers; w++ {
		w := w
		wg.Add(1)
		go func() {
			defer wg.Done()
			total := &WorkerResult{Property: p.ID, Worker: w, Counters: map[string]int64{}}
			results[w] = total
			startIdx := 0
			frozen := 0
			scratch := filepath.Join(rdir, fmt.Sprintf("scratch%02d", w))
			for attempt := 0; attempt < 25; attempt++ {
				out := filepath.Join(rdir, fmt.Sprintf("w%d.%d.json", w, attempt))
				logPath := filepath.Join(rdir, fmt.Sprintf("w%d.%d.log", w, attempt))
				os.RemoveAll(scratch)
				os.MkdirAll(scratch, 0o755)
				hard := maxWall + 10*time.Minute
				args := []string{"-test.run", "^TestVerif$", "-test.timeout", hard.String(), "-test.count", "1"}
				var cmd *exec.Cmd
				if p.MemLimitKB > 0 {
					cmd = exec.Command("bash", append([]string{"-c", fmt.Sprintf("ulimit -v %d; exec \"$0\" \"$@\"", p.MemLimitKB), bin}, args...)...)
				} else {
					cmd = exec.Command(bin, args...)
				}
				cmd.Dir = scratch
				cmd.Env = append(os.Environ(),
					"VERIF_PROP="+p.ID, "VERIF_MODE="+mode, "VERIF_TIER="+tier,
					"VERIF_SEED="+strconv.FormatUint(seed, 10), "VERIF_WORKER="+strconv.Itoa(w), "VERIF_WORKERS="+strconv.Itoa(workers),
					"VERIF_RUNS="+strconv.Itoa(runs), "VERIF_MAXWALL_MS="+strconv.FormatInt(maxWall.Milliseconds(), 10),
					"VERIF_OUT="+out, "VERIF_REPLAY="+replay, "VERIF_SCRATCH="+scratch, "TMPDIR="+scratch, "GOGC=200",
					"VERIF_START="+strconv.Itoa(startIdx))
				cmd.Env = append(cmd.Env, p.Env...)
				if p.Unscheduled {
					cmd.Env = append(cmd.Env, "VERIF_UNSCHEDULED=1")
				}
				cmd.Env = append(cmd.Env, extraEnv...)
				logf, _ := os.Create(logPath)
				cmd.Stdout, cmd.Stderr = logf, logf
				runErr := cmd.Run()
				logf.Close()
				lgb, _ := os.ReadFile(logPath)
				lg := string(lgb)
				var r WorkerResult
				haveResult := false
				if b, rerr := os.ReadFile(out); rerr == nil && json.Unmarshal(b, &r) == nil {
					haveResult = true
				}
				if runErr == nil && haveResult && !r.Partial {
					mergeResult(total, &r)
					return
				}
				tail := lg
				if len(tail) > 5000 {
					tail = tail[len(tail)-5000:]
				}
				if strings.Contains(lg, "VERIF-WATCHDOG") && p.Unscheduled && mode == "search" && frozen < 3 {
					// Tiers with uninstrumented libraries in the bubble (quic-go, gorilla, net/http): a
					// goroutine blocked on a real mutex of such code while its holder is parked in the
					// scheduler freezes the bubble. That is the simulator's limit, not a verdict: the
					// run is abandoned, counted, and the worker goes on with the next one.
					var crumb struct {
						Idx int `json:"idx"`
					}
					if cb, cerr := os.ReadFile(out + ".crumb"); cerr == nil && json.Unmarshal(cb, &crumb) == nil {
						if haveResult {
							mergeResult(total, &r)
						}
						if total.Counters == nil {
							total.Counters = map[string]int64{}
						}
						total.Counters["runs_abandoned_simulator_froze"]++
						frozen++
						startIdx = crumb.Idx + 1
						continue
					}
				}
				if strings.Contains(lg, "VERIF-WATCHDOG") || strings.Contains(lg, "NONDETERMINISTIC") || strings.Contains(r.Note, "NONDETERMINISTIC") {
					errs[w] = fmt.Errorf("worker %d: infrastructure failure (%v): %s\n%s", w, runErr, r.Note, tail)
					return
				}
				// the worker process died: attribute it to the run named in the crumb
				var crumb struct {
					Idx  int             `json:"idx"`
					Spec json.RawMessage `json:"spec"`
				}
				cb, cerr := os.ReadFile(out + ".crumb")
				if mode == "replay" {
					sig := crashSignature(lg)
					t := true
					total.ReplayMatch = &t
					total.Runs++
					total.Violations = append(total.Violations, &Violation{Property: p.ID, Class: "process-crash", Signature: sig, Detail: tail, LogHash: "crash"})
					return
				}
				if cerr != nil || json.Unmarshal(cb, &crumb) != nil || len(crumb.Spec) == 0 {
					errs[w] = fmt.Errorf("worker %d died and left no record of the run in progress (%v):\n%s", w, runErr, tail)
					return
				}
				if haveResult {
					mergeResult(total, &r)
				}
				sig := crashSignature(lg)
				first := strings.Index(lg, sig)
				detail := tail
				if first >= 0 {
					end := first + 3000
					if end > len(lg) {
						end = len(lg)
					}
					detail = lg[first:end]
				}
				total.Runs++
				total.Violations = append(total.Violations, &Violation{Property: p.ID, Class: "process-crash", Signature: sig, Detail: "the worker process running this simulation died: " + detail, Spec: crumb.Spec, LogHash: "crash", Count: 1, RunIndex: crumb.Idx})
				if total.Counters == nil {
					total.Counters = map[string]int64{}
				}
				total.Counters["worker_process_crashes"]++
				startIdx = crumb.Idx + 1
			}
			errs[w] = fmt.Errorf("worker %d: more than 25 process crashes", w)
		}()
	}
	wg.Wait()
	for _, e := range errs {
		if e != nil {
			return results, e
		}
	}
	return results, nil
}

type replayFile struct {
	Property  string     `json:"property"`
	Harness   string     `json:"harness_package"`
	RepoHead  string     `json:"repo_head"`
	Seed      uint64     `json:"check_seed"`
	Tier      string     `json:"tier"`
	Violation *Violation `json:"violation"`
	Replay    string     `json:"replay_cmd"`
}

func repoHead() string {
	out, _ := run(repoDir, "git", "rev-parse", "--short", "HEAD")
	return strings.TrimSpace(out)
}

func sanitize(s string) string {
	var b strings.Builder
	for _, r := range s {
		switch {
		case r >= 'a' && r <= 'z', r >= 'A' && r <= 'Z', r >= '0' && r <= '9', r == '-', r == '_':
			b.WriteRune(r)
		default:
			b.WriteByte('_')
		}
	}
	out := b.String()
	if len(out) > 60 {
		out = out[:60]
	}
	return out
}

func cmdCheck(id, tier string) int {
	p := props[id]
	if p == nil {
		fatal2("unknown property %s", id)
	}
	start := time.Now()
	seed := seedFromEnv()
	bin := build(p.Pkg)
	runs, wall := p.Quick, p.QuickWall
	if tier == "thorough" {
		runs, wall = p.Thorough, p.ThorWall
	}
	if v, err := strconv.Atoi(os.Getenv("VERIF_RUNS")); err == nil && v > 0 {
		runs = v // development override
	}
	onlyPart := os.Getenv("VERIF_ONLY_PART") // development: one part, the main harness cut to a token number of runs
	if onlyPart != "" && runs > 32 {
		runs = 32
	}
	workers := runtime.NumCPU()
	if workers > 16 {
		workers = 16
	}
	if runs < workers {
		workers = runs
	}
	results, err := runWorkers(bin, p, "search", tier, seed, runs, wall, workers, "", nil)
	if err != nil {
		fmt.Fprintln(os.Stderr, err)
		return 2
	}
	partOf := map[string]*propDef{"": p}
	partBin := map[string]string{"": bin}
	var partInfo []map[string]any
	for _, part := range p.Parts {
		if onlyPart != "" && part.ID != onlyPart {
			continue
		}
		pb := build(part.Pkg)
		pruns, pwall := part.Quick, part.QuickWall
		if tier == "thorough" {
			pruns, pwall = part.Thorough, part.ThorWall
		}
		pw := runtime.NumCPU()
		if pw > 16 {
			pw = 16
		}
		if pruns < pw {
			pw = pruns
		}
		pres, err := runWorkers(pb, part, "search", tier, seed, pruns, pwall, pw, "", nil)
		if err != nil {
			fmt.Fprintln(os.Stderr, err)
			return 2
		}
		n, sk := 0, 0
		for _, r := range pres {
			n += r.Runs
			sk += r.Skipped
			for _, v := range r.Violations {
				v.Part = part.ID
			}
			if r.Counters != nil {
				pref := map[string]int64{}
				for k, c := range r.Counters {
					pref[part.ID+":"+k] = c
				}
				r.Counters = pref
			}
		}
		partOf[part.ID], partBin[part.ID] = part, pb
		partInfo = append(partInfo, map[string]any{"part": part.ID, "harness_package": part.Pkg, "runs": n, "outside_scope": sk, "rule": part.Rule, "components_real": part.Real, "components_stub": part.Stub, "assumptions": part.Assume, "unscheduled": part.Unscheduled})
		results = append(results, pres...)
	}
	// aggregate
	agg := &WorkerResult{Counters: map[string]int64{}}
	hashes := map[string]struct{}{}
	bySig := map[string]*Violation{}
	var order []string
	var notes []string
	for _, r := range results {
		agg.Runs += r.Runs
		agg.Skipped += r.Skipped
		agg.Steps += r.Steps
		agg.SimTimeNs += r.SimTimeNs
		agg.QStates += r.QStates
		for k, v := range r.Counters {
			agg.Counters[k] += v
		}
		for _, h := range r.Hashes {
			hashes[h] = struct{}{}
		}
		if len(agg.Samples) < 3 && len(r.Samples) > 0 {
			agg.Samples = append(agg.Samples, r.Samples[0])
		}
		if r.Note != "" {
			notes = append(notes, fmt.Sprintf("w%d: %s", r.Worker, r.Note))
		}
		for _, v := range r.Violations {
			k := v.Class + "|" + v.Signature
			if prev, ok := bySig[k]; ok {
				prev.Count += v.Count
				if len(v.Spec) < len(prev.Spec) {
					c := prev.Count
					*prev = *v
					prev.Count = c
				}
				continue
			}
			bySig[k] = v
			order = append(order, k)
		}
	}
	for _, n := range notes {
		if strings.Contains(n, "UNSTABLE") {
			fmt.Fprintln(os.Stderr, "vdriver: a minimised replay was not reproducible in-process:", n)
			return 2
		}
	}
	sort.Strings(order)
	known := loadKnown()
	exit := 0
	var knownHit []string
	var unrepro []map[string]any
	nviol := 0
	must(os.MkdirAll(filepath.Join(outDir, "replays"), 0o755))
	for _, k := range order {
		v := bySig[k]
		matched := false
		for _, kf := range known {
			if kf.Property == id && kf.Status == "known" && kf.Class == v.Class && kf.Signature == v.Signature {
				fmt.Printf("KNOWN-FINDING: property=%s %s [%s] (%d runs this time)\n", id, kf.What, v.Class+":"+v.Signature, v.Count)
				knownHit = append(knownHit, v.Class+":"+v.Signature)
				matched = true
				break
			}
		}
		if matched {
			continue
		}
		nviol++
		vp, vbin := partOf[v.Part], partBin[v.Part]
		rf := replayFile{Property: id, Harness: vp.Pkg, RepoHead: repoHead(), Seed: seed, Tier: tier, Violation: v}
		name := fmt.Sprintf("%s-%d-%s.json", id, seed, sanitize(v.Class+"-"+v.Signature))
		path := filepath.Join(outDir, "replays", name)
		rf.Replay = fmt.Sprintf("./check replay %s %s", id, path)
		b, _ := json.MarshalIndent(rf, "", " ")
		must(os.WriteFile(path, b, 0o644))
		// confirm in a fresh process
		rr, rerr := runWorkers(vbin, vp, "replay", tier, seed, 1, 5*time.Minute, 1, path, nil)
		stable := rerr == nil && rr[0] != nil && rr[0].ReplayMatch != nil && *rr[0].ReplayMatch
		if stable && v.Class == "process-crash" {
			stable = len(rr[0].Violations) > 0 && rr[0].Violations[0].Signature == v.Signature
		}
		if vp.Unscheduled {
			// replay exactness is measured, not assumed: 5 fresh processes
			hits := 0
			if stable {
				hits++
			}
			for i := 0; i < 4; i++ {
				r2, e2 := runWorkers(vbin, vp, "replay", tier, seed, 1, 5*time.Minute, 1, path, nil)
				if e2 == nil && r2[0] != nil && r2[0].ReplayMatch != nil && *r2[0].ReplayMatch {
					hits++
				}
			}
			fmt.Printf("  replay_stability=%d/5 (unscheduled tier: the replay reproduces the outcome, not a decision log)\n", hits)
			stable = hits > 0
			if hits == 0 && v.Count == 1 {
				// One run in the whole batch, and five fresh executions of the same case do not
				// show it again: in a tier whose goroutine order inside the bubble is the Go
				// runtime's, that is an observation nobody can replay, not a finding. It is
				// recorded (evidence, replay file kept) and not raised as an alarm.
				nviol--
				unrepro = append(unrepro, map[string]any{"part": v.Part, "class": v.Class, "signature": v.Signature, "detail": truncate(v.Detail, 600), "case": path, "fresh_executions_that_showed_it": 0})
				fmt.Printf("UNREPRODUCED property=%s case=%s\n  class=%s signature=%s seen in 1 run, 0 of 5 fresh executions of the same case\n  %s\n", id, path, v.Class, v.Signature, truncate(v.Detail, 600))
				continue
			}
		}
		fmt.Printf("VIOLATION property=%s replay=%s\n", id, path)
		fmt.Printf("  class=%s signature=%s runs=%d steps=%d fresh-process-replay=%v\n  %s\n", v.Class, v.Signature, v.Count, v.Steps, stable, truncate(v.Detail, 600))
		exit = 1
	}
	// evidence
	wallS := time.Since(start).Seconds()
	distinct := len(hashes)
	ev := map[string]any{
		"property_id": id, "tier": tier, "seed": int64(seed & 0x7fffffffffffffff), "level": p.Level,
		"wall_s": wallS, "violations": nviol,
		"coverage": map[string]any{
			"evaluations":                  agg.Runs,
			"distinct_nontrivial":          distinct,
			"rule":                         p.Rule,
			"samples":                      agg.Samples,
			"exhaustive":                   false,
			"simulated_runs":               agg.Runs,
			"runs_outside_property_scope":  agg.Skipped,
			"runs_per_hour":                int(float64(agg.Runs) / wallS * 3600),
			"simulated_time_s":             float64(agg.SimTimeNs) / 1e9,
			"scheduler_steps":              agg.Steps,
			"distinct_decision_log_hashes": distinct,
			"distinct_quiescent_states_sum_over_runs": agg.QStates,
			"counters":            agg.Counters,
			"known_findings_seen": knownHit,
			"observations_seen_once_and_not_reproduced_in_5_fresh_executions": unrepro,
			"components_real":     p.Real,
			"components_stub":     p.Stub,
			"parts":               partInfo,
			"worker_notes":        notes,
			"workers":             workers,
			"repo_head":           repoHead(),
		},
		"assumptions": p.Assume,
	}
	if len(agg.Samples) == 0 && exit == 0 {
		fmt.Fprintln(os.Stderr, "vdriver: workers returned no sample cases")
		exit = 2
	}
	if distinct < 2 && exit == 0 {
		fmt.Fprintf(os.Stderr, "vdriver: only %d distinct non-trivial executions; refusing to call that evidence\n", distinct)
		exit = 2
	}
	must(os.MkdirAll(filepath.Join(outDir, "evidence"), 0o755))
	b, _ := json.MarshalIndent(ev, "", " ")
	must(os.WriteFile(filepath.Join(outDir, "evidence", id+".json"), b, 0o644))
	fmt.Printf("%s %s: runs=%d distinct=%d steps=%d sim=%.0fs wall=%.1fs violations=%d known=%d\n", id, tier, agg.Runs, distinct, agg.Steps, float64(agg.SimTimeNs)/1e9, wallS, nviol, len(knownHit))
	return exit
}

func truncate(s string, n int) string {
	if len(s) > n {
		return s[:n] + "..."
	}
	return s
}

func cmdReplay(id, file string) int {
	p := props[id]
	if p == nil {
		fatal2("unknown property %s", id)
	}
	abs, _ := filepath.Abs(file)
	if b, err := os.ReadFile(abs); err == nil {
		var rf replayFile
		if json.Unmarshal(b, &rf) == nil && rf.Violation != nil && rf.Violation.Part != "" {
			for _, part := range p.Parts {
				if part.ID == rf.Violation.Part {
					p = part
				}
			}
		}
	}
	bin := build(p.Pkg)
	rr, err := runWorkers(bin, p, "replay", "quick", seedFromEnv(), 1, 5*time.Minute, 1, abs, nil)
	if err != nil {
		fmt.Fprintln(os.Stderr, err)
		return 2
	}
	r := rr[0]
	for _, v := range r.Violations {
		fmt.Printf("VIOLATION property=%s replay=%s\n  class=%s signature=%s log_hash=%s\n  %s\n", id, abs, v.Class, v.Signature, v.LogHash, truncate(v.Detail, 1500))
		if os.Getenv("VERIF_TRACE") != "" {
			for _, l := range v.Trace {
				fmt.Println("   ", l)
			}
		}
	}
	if r.ReplayMatch != nil && *r.ReplayMatch {
		fmt.Println("replay: reproduced exactly (same violation, same decision-log hash)")
		return 1
	}
	fmt.Println("replay:", r.Note)
	if len(r.Violations) > 0 {
		return 1
	}
	return 0
}

// determinism: same seeds in several processes at different GOMAXPROCS.
func cmdDeterminism(id string, runs int) int {
	p := props[id]
	if p == nil {
		fatal2("unknown property %s", id)
	}
	bin := build(p.Pkg)
	var ref []string
	for _, gmp := range []string{"1", "4", "16"} {
		for rep := 0; rep < 2; rep++ {
			rr, err := runWorkers(bin, p, "determinism", "quick", seedFromEnv(), runs, 10*time.Minute, 1, "", []string{"GOMAXPROCS=" + gmp})
			if err != nil {
				fmt.Fprintln(os.Stderr, err)
				return 2
			}
			if ref == nil {
				ref = rr[0].Hashes
				continue
			}
			if strings.Join(ref, ",") != strings.Join(rr[0].Hashes, ",") {
				for i := range ref {
					if i < len(rr[0].Hashes) && ref[i] != rr[0].Hashes[i] {
						fmt.Printf("determinism: %s differs at GOMAXPROCS=%s: %s vs %s\n", id, gmp, ref[i], rr[0].Hashes[i])
						break
					}
				}
				return 2
			}
		}
	}
	fmt.Printf("determinism %s: %d specs x 2 in-process x 6 processes (GOMAXPROCS 1/4/16) identical\n", id, runs)
	return 0
}

func main() {
	registerProps()
	if len(os.Args) < 2 {
		fatal2("usage: vdriver setup|check|replay|determinism ...")
	}
	switch os.Args[1] {
	case "setup":
		pkgs := map[string]bool{}
		for _, p := range props {
			pkgs[p.Pkg] = true
			for _, part := range p.Parts {
				pkgs[part.Pkg] = true
			}
		}
		var names []string
		for k := range pkgs {
			names = append(names, k)
		}
		sort.Strings(names)
		for _, k := range names {
			t := time.Now()
			build(k)
			fmt.Printf("built %s in %.1fs\n", k, time.Since(t).Seconds())
		}
	case "check":
		if len(os.Args) < 3 {
			fatal2("usage: vdriver check <PROP> [quick|thorough]")
		}
		tier := os.Getenv("VERIF_TIER")
		if len(os.Args) > 3 {
			tier = os.Args[3]
		}
		if tier == "" {
			tier = "quick"
		}
		os.Exit(cmdCheck(os.Args[2], tier))
	case "replay":
		if len(os.Args) < 4 {
			fatal2("usage: vdriver replay <PROP> <file>")
		}
		os.Exit(cmdReplay(os.Args[2], os.Args[3]))
	case "determinism":
		n := 30
		if len(os.Args) > 3 {
			n, _ = strconv.Atoi(os.Args[3])
		}
		os.Exit(cmdDeterminism(os.Args[2], n))
	default:
		fatal2("unknown command %s", os.Args[1])
	}
}
