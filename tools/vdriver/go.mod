module veriftools/vdriver

go 1.24
