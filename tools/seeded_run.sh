#!/bin/bash
# seeded_run.sh <seeded-dir> <PROP> [tier] : run a check against a seeded change.
# The change is applied in a scratch worktree of /repo's HEAD (removed afterwards) and the
# driver is pointed at it with VERIF_REPO, so /repo, /verif/evidence and /verif/replays are
# not touched. (Equivalent to: git -C /repo apply patch.diff; ./check PROP; git -C /repo checkout -- .)
d=$(readlink -f "/verif/$1" 2>/dev/null || readlink -f "$1"); prop=$2; tier=${3:-quick}
wt=/tmp/sw-$(basename "$d")
git -C /repo worktree remove --force "$wt" >/dev/null 2>&1
base=$(python3 -c "import json,sys; print(json.load(open(sys.argv[1])).get('base_commit','HEAD'))" "$d/meta.json" 2>/dev/null || echo HEAD)
git -C /repo worktree add -q --detach "$wt" "$base" || exit 2
git -C "$wt" apply "$d/patch.diff" || { echo "patch does not apply"; git -C /repo worktree remove --force "$wt"; exit 2; }
mkdir -p /verif/build/dev
out=/verif/build/dev/seeded-$(basename "$d")-$prop.out
cd /verif && VERIF_REPO=$wt ./check $prop $tier > "$out" 2>&1; rc=$?
git -C /repo worktree remove --force "$wt"
rm -rf "/verif/build/alt/$(printf %s "$wt" | tr -c "a-zA-Z0-9_-" "_" | head -c 60)"
echo "rc=$rc"; grep -A1 "^VIOLATION" "$out" | grep "class=" | cut -c1-240 | sort | uniq -c | sort -rn | head -8; tail -1 "$out" | cut -c1-200
