#!/bin/bash
# seeded_run.sh <seeded-dir> <PROP> [tier]  : apply the seeded change to /repo, run the check, undo.
d=$1; prop=$2; tier=${3:-quick}
cd /repo && git apply "$(readlink -f /verif/$d)/patch.diff" || { echo "patch does not apply"; exit 2; }
cd /verif && ./check $prop $tier > /verif/build/dev/seeded.out 2>&1; rc=$?
git -C /repo checkout -- .
echo "rc=$rc"; grep -A1 "^VIOLATION" /verif/build/dev/seeded.out | grep "class=" | cut -c1-220 | sort | uniq -c | sort -rn | head -8; tail -1 /verif/build/dev/seeded.out | cut -c1-200
