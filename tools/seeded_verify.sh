#!/bin/bash
# seeded_verify.sh <seed-id> <patch.diff> <demo-file> <pkg-dir-for-demo> <go test -run pattern>
# Confirms in a scratch worktree of /repo that the change compiles, passes the existing
# suite, and that the demonstration fails with it and passes without it.
set -u
id=$1; patch=$2; demo=$3; pkg=$4; pat=$5
wt=/tmp/sv-$id
git -C /repo worktree remove --force $wt >/dev/null 2>&1
git -C /repo worktree add -q --detach $wt ${BASE:-HEAD} || exit 2
cd $wt
git apply "$patch" || { echo "PATCH DOES NOT APPLY"; exit 2; }
go build ./... || { echo "BUILD FAILS"; exit 1; }
if go test -count=1 ./... > /tmp/sv-$id.suite.log 2>&1; then echo "suite with change: PASS"; else echo "suite with change: FAIL"; tail -5 /tmp/sv-$id.suite.log; fi
cp "$demo" $pkg/zz_seeded_demo_test.go
if go test -count=1 -run "$pat" ./$pkg > /tmp/sv-$id.with.log 2>&1; then echo "demo with change: PASS (unexpected)"; else echo "demo with change: FAIL (expected)"; fi
git apply -R "$patch"
if go test -count=1 -run "$pat" ./$pkg > /tmp/sv-$id.without.log 2>&1; then echo "demo without change: PASS (expected)"; else echo "demo without change: FAIL (unexpected)"; tail -5 /tmp/sv-$id.without.log; fi
cd /; git -C /repo worktree remove --force $wt; rm -f /tmp/sv-$id.*.log
