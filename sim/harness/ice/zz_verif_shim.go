package ice

// Added by the /verif build overlay only: exposes the client's TURN URL parser
// and a Prober constructor for simulated transports.

import (
	"log/slog"

	"github.com/quic-go/quic-go"
)

type VerifTurnServer struct {
	Addr, Username, Password, ServerName string
	UseTCP, UseTLS                       bool
}

func VerifParseTurnServer(raw string) (VerifTurnServer, error) {
	c, err := parseTurnServer(raw)
	return VerifTurnServer{Addr: c.addr, Username: c.username, Password: c.password, ServerName: c.serverName, UseTCP: c.useTCP, UseTLS: c.useTLS}, err
}

// VerifNewProber builds a Prober around an existing QUIC transport (no UDP
// socket, STUN or TURN): ProbeAndDial only uses p.transport.
func VerifNewProber(tr *quic.Transport, logger *slog.Logger) *Prober {
	return &Prober{logger: logger, transport: tr}
}
