package app

// Tier T2 confirmation of C03/C01: the real transfer engines over the real
// transferquic adapter, real quic-go and TLS, on SimUDP and the bubble's fake
// clock. No scheduler is installed (quic-go is not instrumented); the engines'
// generated lock sites spin with durable sleeps so that the clock keeps moving.
// What this decides that T1 cannot: whether the stream-level model of QUIC used
// there (stream visibility, close semantics, error values) agrees with the real
// thing on the behaviours C03 and C01 depend on.

import (
	"context"
	"crypto/sha256"
	"encoding/json"
	"fmt"
	"io"
	"log/slog"
	"net"
	"os"
	"path/filepath"
	"sort"
	"strings"
	"sync"
	"testing"
	"testing/synctest"
	"time"

	"github.com/quic-go/quic-go"
	"github.com/sheerbytes/sheerbytes/internal/quictransport"
	"github.com/sheerbytes/sheerbytes/internal/transfer"
	"github.com/sheerbytes/sheerbytes/internal/transferquic"
	"github.com/sheerbytes/sheerbytes/internal/verifsim"
	"github.com/sheerbytes/sheerbytes/pkg/manifest"
)

type t2File struct {
	P string `json:"p"`
	N int    `json:"n"`
}

type t2txSpec struct {
	Seed    uint64   `json:"seed"`
	Files   []t2File `json:"files"`
	Dirs    []string `json:"empty_dirs,omitempty"`
	Chunk   uint32   `json:"chunk"`
	Streams int      `json:"streams"`
	Conns   int      `json:"conns"`
	ResumeS bool     `json:"resume_s"`
	ResumeR bool     `json:"resume_r"`
	Hash    string   `json:"hash"`
	NoRoot  bool     `json:"no_root"`
	UpMs    int      `json:"up_ms"`
	DownMs  int      `json:"down_ms"`
	LossPm  int      `json:"loss_permille,omitempty"`
	// CloseLost: every datagram the sender's host emits from the moment its engine has
	// returned is lost - i.e. the connection close (and whatever was still unsent)
	CloseLost bool `json:"final_close_lost,omitempty"`
	// Fault (C02T2): injected at AtPm per mille of the fault-free duration of the same transfer
	Fault *t2Fault `json:"fault,omitempty"`
	// Sel: selection mode - these files (each in a directory of its own) are named on the
	// command line; the manifest comes from manifest.ScanPaths and the sender reads through
	// the application's real buildPathResolver. Base names may collide.
	Sel []t2Sel `json:"selection,omitempty"`
}

type t2Sel struct {
	Dir  string `json:"dir"`
	Name string `json:"name"`
	N    int    `json:"n"`
}

type t2Fault struct {
	Kind string `json:"kind"` // blackhole | close_s | close_r | cancel_s | cancel_r
	AtPm int    `json:"at_permille"`
}

type t2Result struct {
	sendErr, recvErr error
	sendRet, recvRet bool
	sendAt, recvAt   time.Duration
	engineAt         time.Duration // both engines had been entered by then (authentication done)
	elapsed          time.Duration
	faultAt          time.Duration
	bubblePanic      string
}

type t2txHarness struct{ prop string } // "C03T2": completion; "C01T2": success => identical tree

func (h t2txHarness) Gen(r *verifsim.SplitMix, tier string, idx int) any {
	sp := t2txSpec{Seed: r.Next()}
	sp.Chunk = []uint32{64, 512, 1024, 4096, 16384}[r.Intn(5)]
	sp.Streams = 1 + r.Intn(6)
	sp.Conns = 1
	if r.Chance(1, 5) {
		sp.Conns = 2
	}
	sp.ResumeS, sp.ResumeR = r.Chance(1, 2), r.Chance(1, 2)
	sp.Hash = []string{"crc32c", "xxhash64", "none"}[r.Intn(3)]
	sp.NoRoot = r.Chance(1, 2)
	lat := []int{0, 1, 5, 20, 40, 100, 200}
	sp.UpMs, sp.DownMs = lat[r.Intn(len(lat))], lat[r.Intn(len(lat))]
	if r.Chance(1, 5) {
		sp.LossPm = []int{10, 50}[r.Intn(2)]
	}
	nf := r.Intn(7)
	if idx%11 == 3 {
		sp.CloseLost = true
		sp.LossPm = 0
	}
	if idx%23 == 5 {
		nf = 0 // the manifest without files (listed finding of C03): must show on real QUIC as well
		sp.LossPm = 0
	}
	c := int(sp.Chunk)
	for i := 0; i < nf; i++ {
		n := []int{0, 1, c - 1, c, c + 1, 2 * c, 3*c + 7, 5*c - 1}[r.Intn(8)]
		if r.Chance(1, 4) {
			n = r.Intn(8*c + 1)
		}
		d := []string{"", "", "sub/", "sub/deep/"}[r.Intn(4)]
		sp.Files = append(sp.Files, t2File{P: fmt.Sprintf("%sf%d.bin", d, i), N: n})
	}
	if r.Chance(1, 3) {
		sp.Dirs = append(sp.Dirs, "emptydir")
	}
	if h.prop != "C02T2" && !sp.CloseLost && r.Chance(1, 6) {
		// files named on the command line, from different directories, with base names that
		// collide - also with the names the disambiguation itself produces
		names := []string{"a.bin", "a.bin", "a.bin", "1_a.bin", "2_a.bin", "b.bin"}
		sp.Files, sp.Dirs, sp.NoRoot = nil, nil, true
		for i, n := 0, 2+r.Intn(3); i < n; i++ {
			sp.Sel = append(sp.Sel, t2Sel{Dir: fmt.Sprintf("d%d", i), Name: names[r.Intn(len(names))], N: 1 + r.Intn(3*c)})
		}
	}
	if h.prop == "C02T2" {
		sp.CloseLost, sp.LossPm = false, 0
		if len(sp.Files) == 0 {
			sp.Files = append(sp.Files, t2File{P: "f0.bin", N: 3*c + 1})
		}
		kinds := []string{"blackhole", "close_s", "close_r", "cancel_s", "cancel_r"}
		sp.Fault = &t2Fault{Kind: kinds[r.Intn(len(kinds))], AtPm: r.Intn(1001)}
	}
	return sp
}

func (t2txHarness) Decode(raw json.RawMessage) (any, error) {
	var sp t2txSpec
	err := json.Unmarshal(raw, &sp)
	return sp, err
}

func (t2txHarness) Shrink(spec any) []any {
	sp := spec.(t2txSpec)
	var out []any
	for i := range sp.Files {
		c := sp
		c.Files = append(append([]t2File(nil), sp.Files[:i]...), sp.Files[i+1:]...)
		out = append(out, c)
	}
	if len(sp.Dirs) > 0 {
		c := sp
		c.Dirs = nil
		out = append(out, c)
	}
	if sp.Streams > 1 {
		c := sp
		c.Streams = 1
		out = append(out, c)
	}
	if sp.Conns > 1 {
		c := sp
		c.Conns = 1
		out = append(out, c)
	}
	if sp.LossPm > 0 {
		c := sp
		c.LossPm = 0
		out = append(out, c)
	}
	if sp.CloseLost {
		c := sp
		c.CloseLost = false
		out = append(out, c)
	}
	if sp.ResumeR || sp.ResumeS {
		c := sp
		c.ResumeR, c.ResumeS = false, false
		out = append(out, c)
	}
	return out
}

func t2Content(seed uint64, path string, n int) []byte {
	r := verifsim.NewSplitMix(verifsim.Mix(seed, path))
	b := make([]byte, n)
	for i := range b {
		b[i] = byte(r.Next())
	}
	return b
}

var t2Mtime = time.Date(2020, 1, 2, 3, 4, 5, 0, time.UTC)

func t2Digest(base string) []string {
	var out []string
	filepath.Walk(base, func(p string, info os.FileInfo, err error) error {
		if err != nil || p == base {
			return nil
		}
		rel, _ := filepath.Rel(base, p)
		// the tool's own resume-metadata directory, directly under the base directory
		// (the output directory itself, or <out>/tree in root-directory mode)
		if info.IsDir() && (rel == ".thruflux_resumedata" || rel == filepath.Join("tree", ".thruflux_resumedata")) {
			return filepath.SkipDir
		}
		if info.IsDir() {
			out = append(out, "D "+filepath.ToSlash(rel))
			return nil
		}
		b, _ := os.ReadFile(p)
		out = append(out, fmt.Sprintf("F %s %d %x", filepath.ToSlash(rel), len(b), sha256.Sum256(b)))
		return nil
	})
	sort.Strings(out)
	return out
}

var t2RunCounter int

// set by Run for the transfer it starts (selection mode)
var t2Resolver func(string) string
var t2SendRoot string

// t2Transfer runs one transfer over real QUIC in a bubble; fault (if any) strikes at `at`.
func t2Transfer(sp t2txSpec, src, out string, m manifest.Manifest, logger *slog.Logger, fault *t2Fault, at time.Duration) t2Result {
	var sendErr, recvErr error
	var sendRet, recvRet bool
	var sendAt, recvAt time.Duration
	var bubblePanic string
	var simElapsed, faultAt, engineAt time.Duration
	func() {
		defer func() {
			if r := recover(); r != nil {
				bubblePanic = fmt.Sprint(r)
			}
		}()
		synctest.Test(admT, func(t *testing.T) {
			start := time.Now()
			verifsim.SpinLocks = true
			defer func() { verifsim.SpinLocks = false }()
			stopPool := transfer.VerifResetReadPool(2)
			unet := verifsim.NewUDPNet(sp.Seed)
			D := unet.NewSock(&net.UDPAddr{IP: net.IPv4(10, 0, 1, 1), Port: 5000})
			L := unet.NewSock(&net.UDPAddr{IP: net.IPv4(10, 0, 0, 1), Port: 4000})
			path := &verifsim.UDPPath{Alias: &net.UDPAddr{IP: net.IPv4(10, 0, 2, 1), Port: 4000}, Up: time.Duration(sp.UpMs) * time.Millisecond, Down: time.Duration(sp.DownMs) * time.Millisecond, LossPm: sp.LossPm}
			unet.AddPath(D, L, path)
			ltr := &quic.Transport{Conn: L}
			dtr := &quic.Transport{Conn: D}
			ln, err := ltr.Listen(raceServerTLS, quictransport.DefaultServerQUICConfig())
			if err != nil {
				bubblePanic = "listen: " + err.Error()
				return
			}
			ctx, cancel := context.WithTimeout(context.Background(), 16*time.Minute)
			defer cancel()
			ctxS, cancelS := context.WithCancel(ctx)
			ctxR, cancelR := context.WithCancel(ctx)
			defer cancelS()
			defer cancelR()
			var mu sync.Mutex
			var sConns, rConns []transfer.Conn
			if fault != nil {
				time.AfterFunc(at, func() {
					mu.Lock()
					faultAt = time.Since(start)
					sc, rc := append([]transfer.Conn(nil), sConns...), append([]transfer.Conn(nil), rConns...)
					mu.Unlock()
					switch fault.Kind {
					case "blackhole":
						unet.SetBlackhole(path, true)
					case "close_s":
						for _, c := range sc {
							_ = c.Close()
						}
					case "close_r":
						for _, c := range rc {
							_ = c.Close()
						}
					case "cancel_s":
						cancelS()
					case "cancel_r":
						cancelR()
					}
				})
			}
			var wg sync.WaitGroup
			wg.Add(2)
			// receiver = listener (as in snapshotReceiver.runTransfer)
			go func() {
				defer wg.Done()
				err := func() error {
					lt := transferquic.NewListener(ln, logger)
					var conns []transfer.Conn
					for i := 0; i < sp.Conns; i++ {
						c, err := lt.Accept(ctx)
						if err != nil {
							return fmt.Errorf("accept: %w", err)
						}
						actx, acancel := context.WithTimeout(ctx, 10*time.Second)
						err = authenticateTransport(actx, c, "JOIN-CODE", authRoleReceive)
						acancel()
						if err != nil {
							return fmt.Errorf("auth: %w", err)
						}
						conns = append(conns, c)
						mu.Lock()
						rConns = append(rConns, c)
						mu.Unlock()
					}
					var rc transfer.Conn = conns[0]
					if len(conns) > 1 {
						mc, err := transfer.NewMultiConn(conns)
						if err != nil {
							return err
						}
						rc = mc
					}
					mu.Lock()
					if d := time.Since(start); d > engineAt {
						engineAt = d
					}
					mu.Unlock()
					_, err := transfer.RecvManifestMultiStream(ctxR, rc, out, transfer.Options{Resume: sp.ResumeR, NoRootDir: sp.NoRoot, HashAlg: sp.Hash})
					return err
				}()
				mu.Lock()
				recvErr, recvRet, recvAt = err, true, time.Since(start)
				mu.Unlock()
				// app shell: the receiver process exits; nothing is closed. Its sockets
				// die with it: from now on the peer hears nothing (and is not heard).
				if err != nil {
					unet.SetBlackhole(path, true)
				}
			}()
			// sender = dialer (as in runICEQUICTransfer)
			go func() {
				defer wg.Done()
				var closers []transfer.Conn
				err := func() error {
					var conns []transfer.Conn
					for i := 0; i < sp.Conns; i++ {
						qc, err := dtr.Dial(ctx, path.Alias, quictransport.ClientConfig(), quictransport.DefaultClientQUICConfig())
						if err != nil {
							return fmt.Errorf("dial: %w", err)
						}
						c, err := transferquic.NewDialer(qc, logger).Dial(ctx, "peer")
						if err != nil {
							return err
						}
						closers = append(closers, c)
						mu.Lock()
						sConns = append(sConns, c)
						mu.Unlock()
						actx, acancel := context.WithTimeout(ctx, 10*time.Second)
						err = authenticateTransport(actx, c, "JOIN-CODE", authRoleSender)
						acancel()
						if err != nil {
							return fmt.Errorf("auth: %w", err)
						}
						conns = append(conns, c)
					}
					var sc transfer.Conn = conns[0]
					if len(conns) > 1 {
						mc, err := transfer.NewMultiConn(conns)
						if err != nil {
							return err
						}
						sc = mc
					}
					mu.Lock()
					if d := time.Since(start); d > engineAt {
						engineAt = d
					}
					mu.Unlock()
					root := src
					if t2SendRoot != "" {
						root = t2SendRoot
					}
					return transfer.SendManifestMultiStream(ctxS, sc, root, m, transfer.Options{ChunkSize: sp.Chunk, ParallelFiles: sp.Streams, Resume: sp.ResumeS, HashAlg: sp.Hash, StripeMax: sp.Conns, ResolveFilePath: t2Resolver})
				}()
				mu.Lock()
				sendErr, sendRet, sendAt = err, true, time.Since(start)
				mu.Unlock()
				if sp.CloseLost {
					unet.SetBlackhole(path, true)
				}
				// app shell: deferred Close() of the transfer connection(s): CloseWithError(0, "")
				for _, c := range closers {
					_ = c.Close()
				}
			}()
			wg.Wait()
			simElapsed = time.Since(start)
			cancel()
			ln.Close()
			dtr.Close()
			ltr.Close()
			D.Close()
			L.Close()
			stopPool()
			time.Sleep(40 * time.Second)
		})
	}()
	return t2Result{sendErr: sendErr, recvErr: recvErr, sendRet: sendRet, recvRet: recvRet, sendAt: sendAt, recvAt: recvAt, elapsed: simElapsed, faultAt: faultAt, engineAt: engineAt, bubblePanic: bubblePanic}
}



func (h t2txHarness) Run(spec any) (res verifsim.RunResult) {
	sp := spec.(t2txSpec)
	res.Counters = map[string]int64{}
	raceTLSOnce.Do(func() { raceServerTLS = quictransport.ServerConfig() })
	logger := slog.New(slog.NewTextHandler(io.Discard, nil))
	t2RunCounter++
	base := filepath.Join(os.Getenv("VERIF_SCRATCH"), fmt.Sprintf("t2run%07d", t2RunCounter))
	os.RemoveAll(base)
	defer os.RemoveAll(base)
	src := filepath.Join(base, "src", "tree")
	out := filepath.Join(base, "out")
	os.MkdirAll(src, 0o755)
	os.MkdirAll(out, 0o755)
	var want []string
	prefix := "tree/"
	if sp.NoRoot {
		prefix = ""
	} else {
		want = append(want, "D tree")
	}
	dirs := map[string]bool{}
	addDirs := func(rel string) {
		for d := filepath.Dir(rel); d != "." && d != "/"; d = filepath.Dir(d) {
			dirs[filepath.ToSlash(d)] = true
		}
	}
	for _, f := range sp.Files {
		p := filepath.Join(src, filepath.FromSlash(f.P))
		os.MkdirAll(filepath.Dir(p), 0o755)
		b := t2Content(sp.Seed, f.P, f.N)
		os.WriteFile(p, b, 0o644)
		want = append(want, fmt.Sprintf("F %s%s %d %x", prefix, f.P, len(b), sha256.Sum256(b)))
		addDirs(f.P)
	}
	for _, d := range sp.Dirs {
		os.MkdirAll(filepath.Join(src, d), 0o755)
		dirs[d] = true
		addDirs(d + "/x")
	}
	for d := range dirs {
		want = append(want, "D "+prefix+d)
	}
	sort.Strings(want)
	filepath.Walk(src, func(p string, info os.FileInfo, err error) error {
		if err == nil {
			os.Chtimes(p, t2Mtime, t2Mtime)
		}
		return nil
	})
	m, err := manifest.Scan(src)
	var resolver func(string) string
	sendRoot := src
	var selHashes []string
	if len(sp.Sel) > 0 {
		var paths []string
		for _, e := range sp.Sel {
			p := filepath.Join(src, e.Dir, e.Name)
			os.MkdirAll(filepath.Dir(p), 0o755)
			b := t2Content(sp.Seed, e.Dir+"/"+e.Name, e.N)
			os.WriteFile(p, b, 0o644)
			os.Chtimes(p, t2Mtime, t2Mtime)
			paths = append(paths, p)
			selHashes = append(selHashes, fmt.Sprintf("%d %x", len(b), sha256.Sum256(b)))
		}
		sort.Strings(selHashes)
		m, err = manifest.ScanPaths(paths)
		if err == nil {
			resolver, err = buildPathResolver(paths)
		}
		sendRoot = "."
	}
	if err != nil {
		res.Skipped = true
		return
	}

	t2Resolver, t2SendRoot = resolver, sendRoot
	tr := t2Transfer(sp, src, out, m, logger, nil, 0)
	if h.prop == "C02T2" {
		return h.judgeFault(sp, src, out, m, logger, want, tr, res)
	}
	sendErr, recvErr, sendRet, recvRet, sendAt, recvAt, bubblePanic, simElapsed := tr.sendErr, tr.recvErr, tr.sendRet, tr.recvRet, tr.sendAt, tr.recvAt, tr.bubblePanic, tr.elapsed
	_ = sendAt
	facts := []string{fmt.Sprintf("send=%s", t2Err(sendErr, sendRet)), fmt.Sprintf("recv=%s", t2Err(recvErr, recvRet))}
	res.LogHash = verifsim.Mix(sp.Seed, strings.Join(facts, ";"))
	res.Steps, res.SimTime = len(sp.Files)+1, simElapsed
	res.Nontrivial = true
	res.Counters["t2_transfers"]++
	res.Sample = map[string]any{"spec": sp, "sender": t2Err(sendErr, sendRet), "receiver": t2Err(recvErr, recvRet), "simulated": simElapsed.String(), "sender_returned_after": sendAt.String(), "receiver_returned_after": recvAt.String()}
	v := func(class, sig, detail string) {
		res.Violations = append(res.Violations, &verifsim.Violation{Class: class, Signature: sig, Detail: detail, LogHash: verifsim.HashStr(res.LogHash), Steps: res.Steps, Trace: facts})
	}
	if bubblePanic != "" && !strings.Contains(bubblePanic, "deadlock: main bubble goroutine has exited") {
		v("harness-panic", "t2:"+firstLineApp(bubblePanic), bubblePanic)
		return
	}
	if h.prop == "C01T2" {
		if sendRet && recvRet && sendErr == nil && recvErr == nil {
			res.Counters["t2_both_succeeded"]++
			got := t2Digest(out)
			if len(sp.Sel) > 0 {
				// names are the disambiguation's business; every named file must be there with its bytes
				var gotHashes []string
				for _, g := range got {
					if f := strings.Fields(g); len(f) == 4 && f[0] == "F" {
						gotHashes = append(gotHashes, f[2]+" "+f[3])
					}
				}
				sort.Strings(gotHashes)
				res.Counters["t2_selection_mode"]++
				if strings.Join(gotHashes, "\n") != strings.Join(selHashes, "\n") {
					v("tree-differs", "t2:selection", fmt.Sprintf("real QUIC, files named on the command line %v: both sides reported success but the output does not hold each of them once: want (size hash) %v, got %v", sp.Sel, selHashes, got))
				}
			} else if strings.Join(got, "\n") != strings.Join(want, "\n") {
				v("tree-differs", "t2", fmt.Sprintf("real QUIC: both sides reported success but the output tree differs:\nwant %v\ngot  %v", want, got))
			}
		} else {
			res.Skipped = true
		}
		return
	}
	switch {
	case !sendRet || !recvRet:
		v("hang", "t2:not-returned", fmt.Sprintf("real QUIC, healthy peers: sender returned=%v receiver returned=%v after %v simulated", sendRet, recvRet, simElapsed))
	case sendErr != nil || recvErr != nil:
		zf := ""
		if len(sp.Files) == 0 && len(sp.Sel) == 0 {
			zf = ";no-files-in-manifest"
		}
		if sendErr == nil && recvErr != nil && strings.Contains(recvErr.Error(), "no recent network activity") {
			// the sender saw every file acknowledged and closed; the receiver never
			// learned that the transfer was over and ran into QUIC's idle timeout
			v("error", "send=nil;recv=idle-timeout"+zf, fmt.Sprintf("real QUIC: the sender finished (every file acknowledged) and closed the connection; the receiver returned after %v with: %v", recvAt, recvErr))
		} else if isTimeout(sendErr) || isTimeout(recvErr) {
			v("hang", "t2:deadline:send="+t2Class(sendErr)+";recv="+t2Class(recvErr)+zf, fmt.Sprintf("real QUIC, healthy peers: did not finish within 16 simulated minutes: sender=%v receiver=%v", sendErr, recvErr))
		} else {
			// same signature as on the stream-level model, so that a listed finding is the same finding on both tiers
			v("error", "send="+t2Class(sendErr)+";recv="+t2Class(recvErr)+zf, fmt.Sprintf("real QUIC, healthy peers, no fault: sender=%v receiver=%v", sendErr, recvErr))
		}
	default:
		res.Counters["t2_both_succeeded"]++
	}
	return
}

func isTimeout(err error) bool {
	return err != nil && (strings.Contains(err.Error(), "deadline exceeded") || strings.Contains(err.Error(), "timeout"))
}

func t2Err(err error, ret bool) string {
	if !ret {
		return "<not returned>"
	}
	if err == nil {
		return "<nil>"
	}
	return err.Error()
}

// t2Class mirrors the T1 harness' error classes for the cases both tiers share.
func t2Class(err error) string {
	if err == nil {
		return "nil"
	}
	s := err.Error()
	switch {
	case strings.Contains(s, "Application error"):
		return "Application error"
	case strings.Contains(s, "context canceled"):
		return "context canceled"
	case strings.Contains(s, "deadline exceeded"):
		return "deadline"
	case strings.Contains(s, "EOF"):
		return "EOF"
	}
	if len(s) > 40 {
		s = s[:40]
	}
	return s
}

// judgeFault is the C02 oracle on real QUIC: tr is the fault-free execution of the
// spec (its duration places the fault); the transfer is then run again with the fault.
func (h t2txHarness) judgeFault(sp t2txSpec, src, out string, m manifest.Manifest, logger *slog.Logger, want []string, dry t2Result, res verifsim.RunResult) verifsim.RunResult {
	if sp.Fault == nil || !dry.sendRet || !dry.recvRet || dry.sendErr != nil || dry.recvErr != nil || dry.elapsed <= 0 {
		res.Skipped = true
		return res
	}
	os.RemoveAll(out)
	os.MkdirAll(out, 0o755)
	// the fault strikes while the engines run (the shell's own accept/auth phase has the
	// application's time-outs in the product, not here)
	at := dry.engineAt + (dry.elapsed-dry.engineAt)*time.Duration(sp.Fault.AtPm)/1000 + time.Millisecond
	tr := t2Transfer(sp, src, out, m, logger, sp.Fault, at)
	facts := []string{"fault=" + sp.Fault.Kind, "send=" + t2Err(tr.sendErr, tr.sendRet), "recv=" + t2Err(tr.recvErr, tr.recvRet)}
	res.LogHash = verifsim.Mix(sp.Seed, strings.Join(facts, ";"))
	res.Steps, res.SimTime = len(sp.Files)+1, dry.elapsed+tr.elapsed
	res.Nontrivial = tr.faultAt > 0
	res.Counters["t2_fault_runs"]++
	if tr.faultAt > 0 {
		res.Counters["t2_fault_fired:"+sp.Fault.Kind]++
	}
	res.Sample = map[string]any{"spec": sp, "fault_free_duration": dry.elapsed.String(), "fault_at": tr.faultAt.String(), "sender": t2Err(tr.sendErr, tr.sendRet), "receiver": t2Err(tr.recvErr, tr.recvRet), "sender_returned_after": tr.sendAt.String(), "receiver_returned_after": tr.recvAt.String()}
	v := func(class, sig, detail string) {
		res.Violations = append(res.Violations, &verifsim.Violation{Class: class, Signature: sig, Detail: detail, LogHash: verifsim.HashStr(res.LogHash), Steps: res.Steps, Trace: facts})
	}
	if tr.bubblePanic != "" && !strings.Contains(tr.bubblePanic, "deadlock: main bubble goroutine has exited") {
		v("harness-panic", "t2:"+firstLineApp(tr.bubblePanic), tr.bubblePanic)
		return res
	}
	if tr.faultAt == 0 {
		return res // the transfer was over before the fault: nothing to judge
	}
	// bounded stop: the engines' own I/O deadline is 10 minutes, QUIC's idle timeout 30 s
	const bound = 12 * time.Minute
	if !tr.sendRet || !tr.recvRet || tr.sendAt-tr.faultAt > bound || tr.recvAt-tr.faultAt > bound {
		v("hang-after-fault", "t2:"+sp.Fault.Kind, fmt.Sprintf("real QUIC, %s at %v: sender returned=%v after %v (%v), receiver returned=%v after %v (%v)", sp.Fault.Kind, tr.faultAt, tr.sendRet, tr.sendAt, tr.sendErr, tr.recvRet, tr.recvAt, tr.recvErr))
		return res
	}
	got := t2Digest(out)
	same := strings.Join(got, "\n") == strings.Join(want, "\n")
	if tr.recvErr == nil && !same {
		v("receiver-false-success", "t2:"+sp.Fault.Kind, fmt.Sprintf("real QUIC, %s at %v: the receiver reported success with a tree that differs: want %v got %v", sp.Fault.Kind, tr.faultAt, want, got))
	}
	if tr.sendErr == nil && !same {
		v("sender-false-success", "t2:"+sp.Fault.Kind, fmt.Sprintf("real QUIC, %s at %v: the sender reported success but the receiver's tree is not complete (receiver: %v): want %v got %v", sp.Fault.Kind, tr.faultAt, tr.recvErr, want, got))
	}
	if tr.sendErr == nil && tr.recvErr == nil {
		res.Counters["t2_fault_survived"]++
	}
	return res
}
