package app

// Tier T2 part of C08: the real authenticateTransport over real transferquic
// connections on real QUIC/TLS sessions (SimUDP, fake clock), with an attacker
// that terminates TLS itself. What T1's stub exporter cannot decide: that the
// keying material the product exports really differs between two TLS sessions
// and really is the same at both ends of one.

import (
	"context"
	"encoding/json"
	"fmt"
	"io"
	"log/slog"
	"net"
	"strings"
	"sync"
	"testing"
	"testing/synctest"
	"time"

	"github.com/quic-go/quic-go"
	"github.com/sheerbytes/sheerbytes/internal/quictransport"
	"github.com/sheerbytes/sheerbytes/internal/transferquic"
	"github.com/sheerbytes/sheerbytes/internal/verifsim"
)

type t2authSpec struct {
	Seed     uint64 `json:"seed"`
	Scenario string `json:"scenario"` // honest | wrong_code | relay | relay_wrong_code | reflect
	CodeS    string `json:"sender_code"`
	CodeR    string `json:"receiver_code"`
	LatMs    int    `json:"one_way_ms"`
}

type t2authHarness struct{}

func (t2authHarness) Gen(r *verifsim.SplitMix, tier string, idx int) any {
	sp := t2authSpec{Seed: r.Next(), LatMs: []int{0, 1, 10, 50}[r.Intn(4)]}
	sp.Scenario = []string{"honest", "wrong_code", "relay", "relay", "relay_wrong_code", "reflect"}[r.Intn(6)]
	codes := []string{"ABCD2345", "ZZZZ9999", "", "ABCD234", "abcd2345"}
	sp.CodeS = codes[r.Intn(2)]
	sp.CodeR = sp.CodeS
	if sp.Scenario == "wrong_code" || sp.Scenario == "relay_wrong_code" {
		for sp.CodeR == sp.CodeS {
			sp.CodeR = codes[r.Intn(len(codes))]
		}
	}
	return sp
}

func (t2authHarness) Decode(raw json.RawMessage) (any, error) {
	var sp t2authSpec
	err := json.Unmarshal(raw, &sp)
	return sp, err
}

func (t2authHarness) Shrink(spec any) []any {
	sp := spec.(t2authSpec)
	if sp.LatMs != 0 {
		c := sp
		c.LatMs = 0
		return []any{c}
	}
	return nil
}

func (t2authHarness) Run(spec any) (res verifsim.RunResult) {
	sp := spec.(t2authSpec)
	res.Counters = map[string]int64{}
	raceTLSOnce.Do(func() { raceServerTLS = quictransport.ServerConfig() })
	logger := slog.New(slog.NewTextHandler(io.Discard, nil))
	var sErr, rErr error = fmt.Errorf("not run"), fmt.Errorf("not run")
	var bubblePanic string
	func() {
		defer func() {
			if r := recover(); r != nil {
				bubblePanic = fmt.Sprint(r)
			}
		}()
		synctest.Test(admT, func(t *testing.T) {
			lat := time.Duration(sp.LatMs) * time.Millisecond
			unet := verifsim.NewUDPNet(sp.Seed)
			D := unet.NewSock(&net.UDPAddr{IP: net.IPv4(10, 0, 1, 1), Port: 5000})  // honest sender (dials)
			L := unet.NewSock(&net.UDPAddr{IP: net.IPv4(10, 0, 0, 1), Port: 4000})  // honest receiver (listens)
			ML := unet.NewSock(&net.UDPAddr{IP: net.IPv4(10, 0, 5, 1), Port: 4100}) // attacker, listening side
			MD := unet.NewSock(&net.UDPAddr{IP: net.IPv4(10, 0, 5, 2), Port: 5100}) // attacker, dialing side
			direct := &verifsim.UDPPath{Alias: &net.UDPAddr{IP: net.IPv4(10, 0, 2, 1), Port: 4000}, Up: lat, Down: lat}
			toM := &verifsim.UDPPath{Alias: &net.UDPAddr{IP: net.IPv4(10, 0, 2, 2), Port: 4100}, Up: lat, Down: lat}
			fromM := &verifsim.UDPPath{Alias: &net.UDPAddr{IP: net.IPv4(10, 0, 2, 3), Port: 4000}, Up: lat, Down: lat}
			unet.AddPath(D, L, direct)
			unet.AddPath(D, ML, toM)
			unet.AddPath(MD, L, fromM)
			trD, trL, trML, trMD := &quic.Transport{Conn: D}, &quic.Transport{Conn: L}, &quic.Transport{Conn: ML}, &quic.Transport{Conn: MD}
			ctx, cancel := context.WithTimeout(context.Background(), 30*time.Second)
			defer cancel()
			lnL, err := trL.Listen(raceServerTLS, quictransport.DefaultServerQUICConfig())
			if err != nil {
				bubblePanic = "listen: " + err.Error()
				return
			}
			lnM, err := trML.Listen(quictransport.ServerConfig(), quictransport.DefaultServerQUICConfig())
			if err != nil {
				bubblePanic = "listen M: " + err.Error()
				return
			}
			attacked := sp.Scenario == "relay" || sp.Scenario == "relay_wrong_code" || sp.Scenario == "reflect"
			var wg sync.WaitGroup
			// honest receiver: accepts whatever connection arrives and authenticates it
			needR := sp.Scenario != "reflect"
			if needR {
				wg.Add(1)
				go func() {
					defer wg.Done()
					qc, err := lnL.Accept(ctx)
					if err != nil {
						rErr = fmt.Errorf("accept: %w", err)
						return
					}
					c, err := transferquic.NewDialer(qc, logger).Dial(ctx, "peer")
					if err != nil {
						rErr = err
						return
					}
					actx, acancel := context.WithTimeout(ctx, 10*time.Second)
					rErr = authenticateTransport(actx, c, sp.CodeR, authRoleReceive)
					acancel()
				}()
			}
			// honest sender: dials the receiver directly, or (attacked) the address the attacker answers on
			wg.Add(1)
			go func() {
				defer wg.Done()
				target := direct.Alias
				if attacked {
					target = toM.Alias
				}
				qc, err := trD.Dial(ctx, target, quictransport.ClientConfig(), quictransport.DefaultClientQUICConfig())
				if err != nil {
					sErr = fmt.Errorf("dial: %w", err)
					return
				}
				c, err := transferquic.NewDialer(qc, logger).Dial(ctx, "peer")
				if err != nil {
					sErr = err
					return
				}
				actx, acancel := context.WithTimeout(ctx, 10*time.Second)
				sErr = authenticateTransport(actx, c, sp.CodeS, authRoleSender)
				acancel()
			}()
			// the attacker: its own TLS session with each victim, bytes carried across
			if attacked {
				wg.Add(1)
				go func() {
					defer wg.Done()
					c1, err := lnM.Accept(ctx)
					if err != nil {
						return
					}
					s1, err := c1.AcceptStream(ctx)
					if err != nil {
						return
					}
					if sp.Scenario == "reflect" {
						// the sender's own proof comes back to it, role byte kept or rewritten
						buf := make([]byte, 50)
						if _, err := io.ReadFull(s1, buf); err != nil {
							return
						}
						if sp.Seed%2 == 0 && len(buf) > 1 {
							buf[1] = authRoleReceive
						}
						s1.Write(buf)
						return
					}
					c2, err := trMD.Dial(ctx, fromM.Alias, quictransport.ClientConfig(), quictransport.DefaultClientQUICConfig())
					if err != nil {
						return
					}
					s2, err := c2.OpenStreamSync(ctx)
					if err != nil {
						return
					}
					done := make(chan struct{}, 2)
					go func() { io.Copy(s2, s1); done <- struct{}{} }()
					go func() { io.Copy(s1, s2); done <- struct{}{} }()
					select {
					case <-done:
					case <-ctx.Done():
					}
				}()
			}
			wg.Wait()
			cancel()
			lnL.Close()
			lnM.Close()
			for _, tr := range []*quic.Transport{trD, trL, trML, trMD} {
				tr.Close()
			}
			for _, s := range []*verifsim.UDPSock{D, L, ML, MD} {
				s.Close()
			}
			time.Sleep(40 * time.Second)
		})
	}()
	facts := []string{"scenario=" + sp.Scenario, fmt.Sprintf("sender_accepts=%v", sErr == nil), fmt.Sprintf("receiver_accepts=%v", rErr == nil)}
	res.LogHash = verifsim.Mix(sp.Seed, strings.Join(facts, ";"))
	res.Steps, res.Nontrivial = 1, true
	res.Counters["t2_auth:"+sp.Scenario]++
	res.Sample = map[string]any{"spec": sp, "sender": fmt.Sprint(sErr), "receiver": fmt.Sprint(rErr)}
	v := func(class, sig, detail string) {
		res.Violations = append(res.Violations, &verifsim.Violation{Class: class, Signature: sig, Detail: detail, LogHash: verifsim.HashStr(res.LogHash), Steps: 1, Trace: facts})
	}
	if bubblePanic != "" && !strings.Contains(bubblePanic, "deadlock: main bubble goroutine has exited") {
		v("harness-panic", "t2auth:"+firstLineApp(bubblePanic), bubblePanic)
		return
	}
	switch sp.Scenario {
	case "honest":
		if sErr != nil || rErr != nil {
			v("auth-rejected-honest-peer", "t2:honest", fmt.Sprintf("real TLS session, same code %q at both ends: sender=%v receiver=%v", sp.CodeS, sErr, rErr))
		}
	default:
		if sErr == nil {
			v("auth-accepted-wrong-peer", "t2:sender:"+sp.Scenario, fmt.Sprintf("real TLS sessions, scenario %s (codes %q / %q): the honest sender accepted", sp.Scenario, sp.CodeS, sp.CodeR))
		}
		if rErr == nil && sp.Scenario != "reflect" {
			v("auth-accepted-wrong-peer", "t2:receiver:"+sp.Scenario, fmt.Sprintf("real TLS sessions, scenario %s (codes %q / %q): the honest receiver accepted", sp.Scenario, sp.CodeS, sp.CodeR))
		}
	}
	return
}
