package app

// C08 harness (T1): the real authenticateTransport at honest ends over SimNet
// sessions whose exporter gives both ends of one session the same keying
// material and different sessions different material; attackers are scripts.

import (
	"crypto/hmac"
	crand "crypto/rand"
	"crypto/sha256"
	"context"
	"encoding/json"
	"fmt"
	"io"
	"strings"
	"sync"
	"sync/atomic"
	"testing"
	"testing/synctest"
	"time"

	"github.com/sheerbytes/sheerbytes/internal/transfer"
	"github.com/sheerbytes/sheerbytes/internal/verifsim"
)

type simConn struct{ *verifsim.NConn }

func (c simConn) OpenStream(ctx context.Context) (transfer.Stream, error) {
	s, err := c.NConn.OpenStream(ctx)
	if err != nil {
		return nil, err
	}
	return s, nil
}

func (c simConn) AcceptStream(ctx context.Context) (transfer.Stream, error) {
	s, err := c.NConn.AcceptStream(ctx)
	if err != nil {
		return nil, err
	}
	return s, nil
}

type authMut struct {
	Dir  string `json:"dir"`  // s2r | r2s
	Kind string `json:"kind"` // flip | trunc
	Pos  int    `json:"pos"`  // bit index (flip) or length kept (trunc)
}

type authSpec struct {
	Seed     uint64            `json:"seed"`
	Strat    verifsim.Strategy `json:"strategy"`
	Topo     string            `json:"topology"` // direct | mitm | rogue_dialer | rogue_listener
	CodeS    string            `json:"code_sender"`
	CodeR    string            `json:"code_receiver"`
	Mut      *authMut          `json:"alteration,omitempty"`
	Attack   string            `json:"attack,omitempty"` // protocol | forward | replay | reflect | roleswap | random | silent
	AttCode  string            `json:"attacker_code,omitempty"`
	SegMax   int               `json:"seg_max"`
	SameCode bool              `json:"-"`
}

type authHarness struct{}

var authCodes = []string{"ABCD-1234", "ABCD-1235", "", "ABCD", "abcd-1234", "ZZZZ-9999", "ABCD-1234\x00"}

func (authHarness) Gen(r *verifsim.SplitMix, tier string, idx int) any {
	sp := authSpec{Seed: r.Next(), SegMax: []int{1, 7, 50, 65536}[r.Intn(4)]}
	kinds := []string{"rand", "weighted", "pct", "fifo"}
	sp.Strat = verifsim.Strategy{Kind: kinds[r.Intn(len(kinds))], Seed: r.Next(), D: r.Intn(3), Horizon: 120, MaxW: 2 + r.Intn(6)}
	sp.CodeS = authCodes[r.Intn(len(authCodes))]
	sp.CodeR = sp.CodeS
	if r.Chance(1, 3) {
		sp.CodeR = authCodes[r.Intn(len(authCodes))]
	}
	// the alteration space (2 directions x (400 single-bit flips + 50 truncations)) is
	// walked systematically by run index; everything else is drawn
	const altSpace = 2 * (authMsgSize*8 + authMsgSize)
	switch x := r.Intn(100); {
	case x < 55:
		sp.Topo = "direct"
		if r.Chance(3, 4) {
			k := idx % altSpace
			m := &authMut{Dir: "s2r"}
			if k >= altSpace/2 {
				m.Dir = "r2s"
				k -= altSpace / 2
			}
			if k < authMsgSize*8 {
				m.Kind, m.Pos = "flip", k
			} else {
				m.Kind, m.Pos = "trunc", k-authMsgSize*8
			}
			sp.Mut = m
			sp.CodeR = sp.CodeS
		}
	case x < 70:
		sp.Topo = "mitm"
		sp.Attack = []string{"forward", "replay", "reflect"}[r.Intn(3)]
	case x < 85:
		sp.Topo = "rogue_dialer"
		sp.Attack = []string{"protocol", "protocol", "replay", "roleswap", "random", "reflect"}[r.Intn(6)]
		sp.AttCode = authCodes[r.Intn(len(authCodes))]
		if r.Chance(1, 4) {
			sp.AttCode = sp.CodeR
		}
	default:
		sp.Topo = "rogue_listener"
		sp.Attack = []string{"protocol", "protocol", "replay", "reflect", "random", "silent", "roleswap"}[r.Intn(7)]
		sp.AttCode = authCodes[r.Intn(len(authCodes))]
		if r.Chance(1, 4) {
			sp.AttCode = sp.CodeS
		}
	}
	return sp
}

func (authHarness) Decode(raw json.RawMessage) (any, error) {
	var sp authSpec
	err := json.Unmarshal(raw, &sp)
	return sp, err
}

func (authHarness) Shrink(spec any) []any {
	sp := spec.(authSpec)
	var out []any
	if sp.SegMax != 65536 {
		c := sp
		c.SegMax = 65536
		out = append(out, c)
	}
	if sp.Strat.Kind != "fifo" {
		c := sp
		c.Strat.Kind = "fifo"
		out = append(out, c)
	}
	return out
}

type authOutcome struct {
	ran bool
	err error
}

func (authHarness) Run(spec any) (res verifsim.RunResult) {
	sp := spec.(authSpec)
	res.Counters = map[string]int64{}
	var viol []*verifsim.Violation
	var frozen atomic.Bool
	addV := func(class, sig, detail string) {
		if frozen.Load() {
			return
		}
		viol = append(viol, &verifsim.Violation{Class: class, Signature: sig, Detail: detail})
	}
	var s *verifsim.Sched
	var bubblePanic string
	var outS, outR authOutcome
	func() {
		defer func() {
			if r := recover(); r != nil {
				bubblePanic = fmt.Sprint(r)
			}
		}()
		synctest.Test(admT, func(t *testing.T) {
			s = verifsim.New(sp.Seed, sp.Strat)
			s.MaxSteps = 400000
			// the product draws its nonces from crypto/rand: seeded per run, so that a run
			// whose verdict depends on a nonce (it never should) still replays
			oldRand := crand.Reader
			crand.Reader = &authSeededRand{r: verifsim.NewSplitMix(sp.Seed ^ 0x6e6f6e6365)}
			defer func() { crand.Reader = oldRand }()
			verifsim.S = s
			verifsim.Watch(s)
			verifsim.SetName("main")
			net := verifsim.NewNet(s, verifsim.NetCfg{SegMax: sp.SegMax})
			s.Events = net.Events
			var mu sync.Mutex
			captured := map[string][]byte{} // "conn/stream" -> bytes written (for replay material)
			net.Tap = func(from *verifsim.NConn, stream uint64, data []byte, fin bool, step int) {
				k := fmt.Sprintf("%s/%d", from.Name, stream)
				captured[k] = append(captured[k], data...)
			}
			var done atomic.Int32
			want := 0
			honest := func(name string, conn *verifsim.NConn, code string, role byte, out *authOutcome) {
				want++
				verifsim.Go(name, func() {
					defer done.Add(1)
					ctx, cancel := context.WithTimeout(context.Background(), 10*time.Second)
					defer cancel()
					err := authenticateTransport(ctx, simConn{conn}, code, role)
					mu.Lock()
					if !frozen.Load() {
						out.ran, out.err = true, err
					}
					mu.Unlock()
				})
			}
			// replay material: a complete honest exchange with the victims' code on ANOTHER session
			replayMaterial := func(code string) (sMsg, rMsg []byte) {
				c, sv := net.Pair("old")
				var d atomic.Int32
				verifsim.Go("OS", func() {
					defer d.Add(1)
					ctx, cancel := context.WithTimeout(context.Background(), 10*time.Second)
					defer cancel()
					_ = authenticateTransport(ctx, simConn{c}, code, authRoleSender)
				})
				verifsim.Go("OR", func() {
					defer d.Add(1)
					ctx, cancel := context.WithTimeout(context.Background(), 10*time.Second)
					defer cancel()
					_ = authenticateTransport(ctx, simConn{sv}, code, authRoleReceive)
				})
				s.Run(func() bool { return d.Load() == 2 }, time.Now().Add(time.Minute), 0)
				return append([]byte(nil), captured["old.C/0"]...), append([]byte(nil), captured["old.S/0"]...)
			}
			readN := func(st *verifsim.NStream, n int) []byte {
				st.SetReadDeadline(time.Now().Add(12 * time.Second))
				buf := make([]byte, n)
				k, _ := io.ReadFull(st, buf)
				return buf[:k]
			}
			expectS, expectR := false, false
			switch sp.Topo {
			case "direct":
				c, sv := net.Pair("c0")
				same := sp.CodeS == sp.CodeR
				expectS, expectR = same, same
				if sp.Mut != nil {
					if sp.Mut.Dir == "s2r" {
						expectS, expectR = false, false
					} else {
						expectS = false // the receiver has answered a genuine sender; the sender must refuse the altered answer
					}
					fromName := "c0.C"
					if sp.Mut.Dir == "r2s" {
						fromName = "c0.S"
					}
					net.OnDeliver = func(d *verifsim.Delivery) verifsim.Action {
						if d.From.Name != fromName || d.Stream != 0 {
							return verifsim.ActNone
						}
						switch sp.Mut.Kind {
						case "flip":
							byteIdx := int64(sp.Mut.Pos / 8)
							if byteIdx >= d.Offset && byteIdx < d.Offset+int64(len(d.Data)) {
								d.Data = append([]byte(nil), d.Data...)
								d.Data[byteIdx-d.Offset] ^= 1 << (sp.Mut.Pos % 8)
								res.Counters["alteration_applied:flip"]++
							}
						case "trunc":
							keep := int64(sp.Mut.Pos)
							if d.Offset+int64(len(d.Data)) > keep {
								n := keep - d.Offset
								if n < 0 {
									n = 0
								}
								d.Data = d.Data[:n]
								res.Counters["alteration_applied:trunc"]++
								return verifsim.ActAbort // nothing more arrives
							}
						}
						return verifsim.ActNone
					}
				}
				honest("S", c, sp.CodeS, authRoleSender, &outS)
				honest("R", sv, sp.CodeR, authRoleReceive, &outR)
			case "mitm":
				// S - A1 (session 1)   A2 - R (session 2); the attacker holds no join code
				var oldS, oldR []byte
				if sp.Attack == "replay" {
					oldS, oldR = replayMaterial(sp.CodeS)
				}
				c1, a1 := net.Pair("m1")
				a2, r2 := net.Pair("m2")
				expectS, expectR = false, false
				honest("S", c1, sp.CodeS, authRoleSender, &outS)
				honest("R", r2, sp.CodeR, authRoleReceive, &outR)
				verifsim.Go("A", func() {
					ctx, cancel := context.WithTimeout(context.Background(), 12*time.Second)
					defer cancel()
					in, err := a1.AcceptStream(ctx)
					if err != nil {
						return
					}
					sMsg := readN(in, authMsgSize)
					toR, err := a2.OpenStream(ctx)
					if err != nil {
						return
					}
					switch sp.Attack {
					case "forward":
						toR.Write(sMsg)
					case "replay":
						toR.Write(oldS)
					case "reflect":
						toR.Write(sMsg)
					}
					rMsg := readN(toR, authMsgSize)
					switch sp.Attack {
					case "forward":
						in.Write(rMsg)
					case "replay":
						in.Write(oldR)
					case "reflect":
						in.Write(sMsg) // the sender's own proof back to it
					}
					in.Close()
					toR.Close()
				})
			case "rogue_dialer":
				var oldS []byte
				if sp.Attack == "replay" {
					oldS, _ = replayMaterial(sp.CodeR)
				}
				a, r := net.Pair("c0")
				expectR = sp.Attack == "protocol" && sp.AttCode == sp.CodeR
				honest("R", r, sp.CodeR, authRoleReceive, &outR)
				verifsim.Go("A", func() {
					ctx, cancel := context.WithTimeout(context.Background(), 12*time.Second)
					defer cancel()
					switch sp.Attack {
					case "protocol":
						_ = authenticateTransport(ctx, simConn{a}, sp.AttCode, authRoleSender)
						return
					}
					st, err := a.OpenStream(ctx)
					if err != nil {
						return
					}
					defer st.Close()
					switch sp.Attack {
					case "replay":
						st.Write(oldS)
					case "roleswap":
						key := atkKey(simConn{a}, sp.AttCode)
						nonce := make([]byte, 16)
						for i := range nonce {
							nonce[i] = byte(s.Data.Next())
						}
						// a receiver-role proof sent in the sender's place, under a code the attacker holds
						st.Write(atkMsg(authRoleReceive, nonce, atkMac(key, authRoleReceive, nonce)))
						if sp.AttCode == sp.CodeR {
							// still not a sender proof: must be refused
						}
					case "random":
						b := make([]byte, authMsgSize)
						for i := range b {
							b[i] = byte(s.Data.Next())
						}
						b[0], b[1] = authVersion, authRoleSender
						st.Write(b)
					case "reflect":
						// nothing to reflect before the victim speaks: send a well-formed frame with a zero proof
						b := make([]byte, authMsgSize)
						b[0], b[1] = authVersion, authRoleSender
						st.Write(b)
					}
					readN(st, authMsgSize)
				})
			case "rogue_listener":
				var oldR []byte
				if sp.Attack == "replay" {
					_, oldR = replayMaterial(sp.CodeS)
				}
				c, a := net.Pair("c0")
				expectS = sp.Attack == "protocol" && sp.AttCode == sp.CodeS
				honest("S", c, sp.CodeS, authRoleSender, &outS)
				verifsim.Go("A", func() {
					ctx, cancel := context.WithTimeout(context.Background(), 12*time.Second)
					defer cancel()
					if sp.Attack == "protocol" {
						_ = authenticateTransport(ctx, simConn{a}, sp.AttCode, authRoleReceive)
						return
					}
					st, err := a.AcceptStream(ctx)
					if err != nil {
						return
					}
					defer st.Close()
					sMsg := readN(st, authMsgSize)
					switch sp.Attack {
					case "replay":
						st.Write(oldR)
					case "reflect":
						st.Write(sMsg)
					case "roleswap":
						// the victim's nonce re-used under the attacker's code with the receiver role
						key := atkKey(simConn{a}, sp.AttCode)
						if len(sMsg) == authMsgSize {
							nonce := sMsg[2 : 2+16]
							st.Write(atkMsg(authRoleReceive, nonce, atkMac(key, authRoleSender, nonce)))
						}
					case "random":
						b := make([]byte, authMsgSize)
						for i := range b {
							b[i] = byte(s.Data.Next())
						}
						b[0], b[1] = authVersion, authRoleReceive
						st.Write(b)
					case "silent":
					}
				})
			}
			outcome := s.Run(func() bool { return int(done.Load()) == want }, time.Now().Add(2*time.Minute), 0)
			mu.Lock()
			frozenNow := func() { frozen.Store(true) }
			kind := sp.Topo
			if sp.Attack != "" {
				kind += ":" + sp.Attack
			}
			if sp.Mut != nil {
				kind += ":" + sp.Mut.Dir + "-" + sp.Mut.Kind
			}
			if outcome != verifsim.Finished {
				addV("auth-hang", kind, fmt.Sprintf("an honest end had not returned from authenticateTransport after %v simulated (its own timeout is 10 s): %v", s.Since(), s.Waiting()))
			} else {
				judge := func(side string, o authOutcome, expect bool) {
					if !o.ran {
						return
					}
					got := o.err == nil
					switch {
					case got && !expect:
						sig := side + ":" + kind
						// two distinct codes one of which is the other plus trailing NUL bytes are the
						// same HMAC key after zero padding: named apart so that the listed finding
						// cannot hide another acceptance
						peerCode := sp.CodeR
						if side == "receiver" {
							peerCode = sp.CodeS
						}
						mine := sp.CodeS
						if side == "receiver" {
							mine = sp.CodeR
						}
						for _, other := range []string{peerCode, sp.AttCode} {
							if other != mine && strings.TrimRight(other, "\x00") == strings.TrimRight(mine, "\x00") {
								sig = side + ":codes-equal-up-to-trailing-nul"
							}
						}
						addV("auth-accepted-wrong-peer", sig, fmt.Sprintf("%s accepted although its peer is not the other honest end of the same session holding the same code (codes %q/%q attacker %q)", side, sp.CodeS, sp.CodeR, sp.AttCode))
					case !got && expect:
						addV("auth-rejected-right-peer", side+":"+kind, fmt.Sprintf("%s rejected a peer on the same session holding the same code: %v", side, o.err))
					}
				}
				judge("sender", outS, expectS)
				judge("receiver", outR, expectR)
				if expectS || expectR {
					res.Counters["runs_expecting_accept"]++
				} else {
					res.Counters["runs_expecting_reject"]++
				}
			}
			frozenNow()
			mu.Unlock()
			s.Stop()
			verifsim.Watch(nil)
			net.Shutdown()
			time.Sleep(30 * time.Second)
		})
	}()
	verifsim.S = nil
	if bubblePanic != "" && !strings.Contains(bubblePanic, "deadlock: main bubble goroutine has exited") {
		viol = append(viol, &verifsim.Violation{Class: "panic", Signature: "bubble:" + firstLineApp(bubblePanic), Detail: bubblePanic})
	}
	if s != nil {
		res.LogHash, res.Steps, res.SimTime, res.QStates = s.LogHash, s.Steps, s.Since(), len(s.QStates)
		res.Nontrivial = s.Steps > 5
		for _, v := range viol {
			v.LogHash, v.Steps, v.Trace = verifsim.HashStr(s.LogHash), s.Steps, s.Log
		}
	}
	res.Violations = viol
	res.Sample = map[string]any{"spec": sp, "sender_result": fmt.Sprint(outS.err), "receiver_result": fmt.Sprint(outR.err)}
	return
}

// The attacker's own implementation of the authentication wire format (version,
// role, 16-byte nonce, HMAC-SHA256 over version|role|nonce under a key derived
// from join code and exported keying material), written from the protocol, so
// that the harness does not depend on the product's helper functions.
func atkKey(c interface {
	ExportKeyingMaterial(label string, context []byte, length int) ([]byte, error)
}, code string) []byte {
	ekm, _ := c.ExportKeyingMaterial("thruflux-auth-v1", nil, 32)
	m := hmac.New(sha256.New, []byte(code))
	m.Write(ekm)
	return m.Sum(nil)
}

func atkMac(key []byte, role byte, nonce []byte) []byte {
	m := hmac.New(sha256.New, key)
	m.Write([]byte{1, role})
	m.Write(nonce)
	return m.Sum(nil)
}

func atkMsg(role byte, nonce, mac []byte) []byte {
	b := []byte{1, role}
	b = append(b, nonce...)
	return append(b, mac...)
}

// authSeededRand stands in for crypto/rand.Reader during a run.
type authSeededRand struct {
	mu sync.Mutex
	r  *verifsim.SplitMix
}

func (a *authSeededRand) Read(p []byte) (int, error) {
	a.mu.Lock()
	defer a.mu.Unlock()
	for i := range p {
		p[i] = byte(a.r.Next() >> 24)
	}
	return len(p), nil
}
