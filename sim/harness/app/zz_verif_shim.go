package app

// Added by the /verif build overlay only: exposes the client's URL builder.

func VerifBuildWebSocketURL(serverURL, joinCode, peerID, role string, maxReceivers int) (string, error) {
	return buildWebSocketURL(serverURL, joinCode, peerID, role, maxReceivers)
}
