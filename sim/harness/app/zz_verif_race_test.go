package app

// C09 harness (T2): the real ice.Prober.ProbeAndDial and real quic-go over
// SimUDP with several candidate paths to one listener, on the bubble's fake
// clock. quic-go is not instrumented and no scheduler is installed: the
// interleavings come from the per-path latencies, loss and blackholing.

import (
	"context"
	"os"
	"sync/atomic"
	"crypto/tls"
	"encoding/json"
	"fmt"
	"io"
	"log/slog"
	"net"
	"sort"
	"strings"
	"sync"
	"testing"
	"testing/synctest"
	"time"

	"github.com/quic-go/quic-go"
	"github.com/sheerbytes/sheerbytes/internal/ice"
	"github.com/sheerbytes/sheerbytes/internal/quictransport"
	"github.com/sheerbytes/sheerbytes/internal/transferquic"
	"github.com/sheerbytes/sheerbytes/internal/verifsim"
)

type racePath struct {
	UpMs      int  `json:"up_ms"`
	DownMs    int  `json:"down_ms"`
	Blackhole bool `json:"blackhole,omitempty"`
	LossPm    int  `json:"loss_permille,omitempty"`
	Turn      bool `json:"relay_prefixed,omitempty"` // offered as "turn:<addr>": raced only after the direct candidates
}

type raceSpec struct {
	Seed     uint64     `json:"seed"`
	Paths    []racePath `json:"paths"`
	Dup      bool       `json:"duplicate_candidate,omitempty"`
	TurnPref bool       `json:"turn_prefixed_alias,omitempty"`
	Bogus    bool       `json:"unroutable_candidate,omitempty"`
	// Sched: the run is driven by the seeded scheduler over the generated yield points of
	// internal/ice and internal/app (quic-go itself still runs freely between two steps)
	Sched *verifsim.Strategy `json:"scheduler,omitempty"`
}

type raceHarness struct{}

func (raceHarness) Gen(r *verifsim.SplitMix, tier string, idx int) any {
	sp := raceSpec{Seed: r.Next()}
	n := 1 + r.Intn(4)
	lat := []int{1, 2, 5, 10, 20, 25, 40, 50, 80, 100}
	slow := []int{300, 600, 900, 1200, 1500, 2400} // handshakes that outlast the prober's own timers
	for i := 0; i < n; i++ {
		p := racePath{UpMs: lat[r.Intn(len(lat))], DownMs: lat[r.Intn(len(lat))]}
		if r.Chance(1, 6) {
			p.UpMs, p.DownMs = slow[r.Intn(len(slow))], slow[r.Intn(len(slow))]
		}
		if i > 0 && r.Chance(1, 5) {
			p.Turn = true
		}
		if i > 0 && r.Chance(1, 3) {
			// same round trip as the first path, split differently: handshakes finish together on the dialer
			rtt := sp.Paths[0].UpMs + sp.Paths[0].DownMs
			if rtt > 2 {
				p.UpMs = 1 + r.Intn(rtt-1)
				p.DownMs = rtt - p.UpMs
			}
		}
		if r.Chance(1, 10) {
			p.Blackhole = true
		}
		if r.Chance(1, 6) {
			p.LossPm = []int{20, 100, 300}[r.Intn(3)]
		}
		sp.Paths = append(sp.Paths, p)
	}
	sp.Dup = r.Chance(1, 5)
	sp.TurnPref = r.Chance(1, 6)
	sp.Bogus = r.Chance(1, 4)
	if r.Chance(1, 4) {
		sp.Sched = &verifsim.Strategy{Kind: []string{"rand", "weighted", "pct"}[r.Intn(3)], Seed: r.Next(), D: r.Intn(3), Horizon: 200, MaxW: 6}
		if r.Chance(1, 2) {
			// the machine stalls now and then (a runnable goroutine is not run while the
			// clock moves on and handshakes complete): the prober's own goroutines race its
			// caller
			sp.Sched.StallPer = 200 + r.Intn(600)
			sp.Sched.StallBudgetMs = 3000
		}
	}
	return sp
}

func (raceHarness) Decode(raw json.RawMessage) (any, error) {
	var sp raceSpec
	err := json.Unmarshal(raw, &sp)
	return sp, err
}

func (raceHarness) Shrink(spec any) []any {
	sp := spec.(raceSpec)
	var out []any
	for i := range sp.Paths {
		if len(sp.Paths) > 1 {
			c := sp
			c.Paths = append(append([]racePath(nil), sp.Paths[:i]...), sp.Paths[i+1:]...)
			out = append(out, c)
		}
	}
	for i, p := range sp.Paths {
		if p.LossPm > 0 {
			c := sp
			c.Paths = append([]racePath(nil), sp.Paths...)
			c.Paths[i].LossPm = 0
			out = append(out, c)
		}
	}
	if sp.Sched != nil && sp.Sched.Kind != "fifo" {
		c := sp
		st := *sp.Sched
		st.Kind = "fifo"
		c.Sched = &st
		out = append(out, c)
	}
	for _, f := range []func(*raceSpec){func(c *raceSpec) { c.Dup = false }, func(c *raceSpec) { c.TurnPref = false }, func(c *raceSpec) { c.Bogus = false }} {
		c := sp
		f(&c)
		if c.Dup != sp.Dup || c.TurnPref != sp.TurnPref || c.Bogus != sp.Bogus {
			out = append(out, c)
		}
	}
	return out
}

// authInTime: is the common path fast and clean enough for the 10 s authentication
// deadline to be ample? (1.5 round trips are needed; on a slow, lossy path
// retransmission timers alone can use up the 10 s - that is not C09's business.)
func authInTime(sp raceSpec, c *quic.Conn, unet *verifsim.UDPNet) bool {
	if c == nil {
		return false
	}
	p := unet.PathOf(c.RemoteAddr())
	if p == nil {
		return false
	}
	i := unet.IndexOf(p)
	if i < 0 || i >= len(sp.Paths) {
		return false
	}
	rtt, loss := sp.Paths[i].UpMs+sp.Paths[i].DownMs, sp.Paths[i].LossPm
	return (loss == 0 && rtt <= 3000) || (loss <= 100 && rtt <= 200)
}

var raceTLSOnce sync.Once
var raceServerTLS *tls.Config

func (raceHarness) Run(spec any) (res verifsim.RunResult) {
	sp := spec.(raceSpec)
	res.Counters = map[string]int64{}
	raceTLSOnce.Do(func() { raceServerTLS = quictransport.ServerConfig() }) // key generation outside the bubble
	logger := slog.New(slog.NewTextHandler(io.Discard, nil))
	if os.Getenv("VERIF_DBG") != "" {
		logger = slog.New(slog.NewTextHandler(os.Stderr, &slog.HandlerOptions{Level: slog.LevelDebug}))
	}
	var viol []*verifsim.Violation
	addV := func(class, sig, detail string) {
		viol = append(viol, &verifsim.Violation{Class: class, Signature: sig, Detail: detail})
	}
	var facts []string
	var bubblePanic string
	var simElapsed time.Duration
	var schedSteps int
	var schedHash uint64
	func() {
		defer func() {
			if r := recover(); r != nil {
				bubblePanic = fmt.Sprint(r)
			}
		}()
		synctest.Test(admT, func(t *testing.T) {
			start := time.Now()
			var sched *verifsim.Sched
			spawn := func(name string, f func()) { go f() }
			if sp.Sched != nil {
				sched = verifsim.New(sp.Seed, *sp.Sched)
				sched.MaxSteps = 2000000
				verifsim.S = sched
				verifsim.Watch(sched)
				verifsim.SetName("main")
				spawn = verifsim.Go
				defer func() {
					sched.Stop()
					verifsim.Watch(nil)
				}()
			}
			unet := verifsim.NewUDPNet(sp.Seed)
			D := unet.NewSock(&net.UDPAddr{IP: net.IPv4(10, 0, 1, 1), Port: 5000})
			L := unet.NewSock(&net.UDPAddr{IP: net.IPv4(10, 0, 0, 1), Port: 4000})
			var cands []string
			for i, p := range sp.Paths {
				up := &verifsim.UDPPath{Alias: &net.UDPAddr{IP: net.IPv4(10, 0, 2, byte(i+1)), Port: 4000}, Up: time.Duration(p.UpMs) * time.Millisecond, Down: time.Duration(p.DownMs) * time.Millisecond, Blackhole: p.Blackhole, LossPm: p.LossPm}
				unet.AddPath(D, L, up)
				if p.Turn {
					cands = append(cands, "turn:"+up.Alias.String())
				} else {
					cands = append(cands, up.Alias.String())
				}
			}
			if sp.Dup {
				cands = append(cands, cands[0])
			}
			if sp.TurnPref {
				cands = append(cands, "turn:"+strings.TrimPrefix(cands[len(sp.Paths)-1], "turn:"))
			}
			if sp.Bogus {
				cands = append(cands, "10.9.9.9:1", "not-an-address")
			}
			ltr := &quic.Transport{Conn: L}
			dtr := &quic.Transport{Conn: D}
			ln, err := ltr.Listen(raceServerTLS, quictransport.DefaultServerQUICConfig())
			if err != nil {
				addV("harness-panic", "listen", err.Error())
				return
			}
			ctx, cancel := context.WithTimeout(context.Background(), 40*time.Second)
			defer cancel()
			var mu sync.Mutex
			var committed *quic.Conn // what the accepting side took as its primary connection
			var later []*quic.Conn   // everything else the listener completed
			var acceptAuth, dialAuth error = fmt.Errorf("not run"), fmt.Errorf("not run")
			var dialed *quic.Conn
			var dialErr error
			probeState := map[string]ice.ProbeState{} // last state ProbeAndDial reported per candidate address
			var wg sync.WaitGroup
			wg.Add(2)
			// accepting side: transcription of snapshotReceiver.runTransfer's accept loop (since fix
			// 40bdffe): every incoming connection is authenticated, the first that passes is
			// committed to; a failure is final only if nothing passes within 15 s of it. (The real
			// loop runs in tier T4, part C09APP.) Unlike the product the harness does not close
			// the connections that fail: whether the DIALER closes what it abandons is judged below.
			spawn("L", func() {
				defer wg.Done()
				type res struct {
					qc  *quic.Conn
					err error
				}
				resCh := make(chan res, 32)
				lctx, lstop := context.WithCancel(ctx)
				defer lstop()
				go func() {
					for {
						qc, err := ln.Accept(lctx)
						if err != nil {
							return
						}
						go func() {
							tc, derr := transferquic.NewDialer(qc, logger).Dial(lctx, "peer")
							if derr != nil {
								resCh <- res{qc, derr}
								return
							}
							actx, acancel := context.WithTimeout(lctx, 10*time.Second)
							err := authenticateTransport(actx, tc, "JOIN-CODE", authRoleReceive)
							acancel()
							resCh <- res{qc, err}
						}()
					}
				}()
				var giveUp <-chan time.Time
				lastErr := fmt.Errorf("accept: no connection")
				for {
					select {
					case r := <-resCh:
						if r.err == nil {
							mu.Lock()
							committed, acceptAuth = r.qc, nil
							mu.Unlock()
							lstop()
							// observer: later completions (the product leaves them in the accept queue)
							go func() {
								for {
									c, err := ln.Accept(ctx)
									if err != nil {
										return
									}
									mu.Lock()
									later = append(later, c)
									mu.Unlock()
								}
							}()
							go func() {
								for {
									select {
									case r := <-resCh:
										mu.Lock()
										later = append(later, r.qc)
										mu.Unlock()
									case <-ctx.Done():
										return
									}
								}
							}()
							return
						}
						mu.Lock()
						later = append(later, r.qc)
						mu.Unlock()
						lastErr = r.err
						if giveUp == nil {
							giveUp = time.After(15 * time.Second)
						}
					case <-giveUp:
						mu.Lock()
						acceptAuth = lastErr
						mu.Unlock()
						return
					case <-ctx.Done():
						mu.Lock()
						acceptAuth = fmt.Errorf("accept: %w", lastErr)
						mu.Unlock()
						return
					}
				}
			})
			// dialing side: the real ProbeAndDial, then auth as in runICEQUICTransfer
			spawn("D", func() {
				defer wg.Done()
				prober := ice.VerifNewProber(dtr, logger)
				qc, err := prober.ProbeAndDial(ctx, cands, quictransport.ClientConfig(), quictransport.DefaultClientQUICConfig(), func(u ice.ProbeUpdate) {
					mu.Lock()
					probeState[strings.TrimPrefix(u.Addr, "turn:")] = u.State
					mu.Unlock()
				})
				mu.Lock()
				dialed, dialErr = qc, err
				mu.Unlock()
				if err != nil {
					return
				}
				tc, derr := transferquic.NewDialer(qc, logger).Dial(ctx, "peer")
				if derr != nil {
					mu.Lock()
					dialAuth = derr
					mu.Unlock()
					return
				}
				actx, acancel := context.WithTimeout(ctx, 10*time.Second)
				err = authenticateTransport(actx, tc, "JOIN-CODE", authRoleSender)
				acancel()
				mu.Lock()
				dialAuth = err
				mu.Unlock()
			})
			pass := func(d time.Duration) {
				if sched == nil {
					time.Sleep(d)
					return
				}
				t1 := time.Now()
				sched.Run(func() bool { return time.Since(t1) >= d }, t1.Add(d+time.Second), 0)
				schedSteps, schedHash = sched.Steps, sched.LogHash
			}
			if sched != nil {
				var fin atomic.Bool
				go func() { wg.Wait(); fin.Store(true); sched.Kick() }()
				sched.Run(func() bool { return fin.Load() }, start.Add(60*time.Second), 0)
				pass(5 * time.Second)
			} else {
				wg.Wait()
				pass(5 * time.Second) // grace: losers have been told
			}
			mu.Lock()
			pathName := func(c *quic.Conn) string {
				if c == nil {
					return "none"
				}
				if p := unet.PathOf(c.RemoteAddr()); p != nil {
					return fmt.Sprintf("path%d", unet.IndexOf(p))
				}
				return "unknown:" + c.RemoteAddr().String()
			}
			dp, ap := pathName(dialed), pathName(committed)
			facts = append(facts, "dialer="+dp, "acceptor="+ap, fmt.Sprintf("dialErr=%v", dialErr != nil), fmt.Sprintf("dialAuthOK=%v acceptAuthOK=%v", dialAuth == nil, acceptAuth == nil))
			usable := 0
			for _, p := range sp.Paths {
				// (a round trip near quic-go's 5 s handshake idle timeout may legitimately fail)
				// ... and so may a handshake on a lossy path (every retransmission can be lost)
				if !p.Blackhole && p.UpMs+p.DownMs <= 3000 && p.LossPm == 0 {
					usable++
				}
			}
			slowOnly := usable == 0
			switch {
			case dialErr != nil && slowOnly:
				res.Skipped = true // nothing reachable (in time): failing is correct
			case dialErr != nil:
				addV("dial-failed-with-reachable-path", fmt.Sprintf("usable=%d", min(usable, 2)), fmt.Sprintf("ProbeAndDial failed although %d of %d paths are reachable: %v", usable, len(sp.Paths), dialErr))
			default:
				res.Counters["dial_succeeded"]++
				if dp != ap && committed != nil {
					addV("split-connection", "dialer-and-acceptor-on-different-connections", fmt.Sprintf("the dialing side uses %s, the accepting side committed to %s (paths %+v); authentication: dialer=%v acceptor=%v", dp, ap, sp.Paths, dialAuth, acceptAuth))
				} else if (dialAuth != nil || acceptAuth != nil) && authInTime(sp, dialed, unet) {
					addV("auth-failed-on-common-connection", "auth", fmt.Sprintf("both sides are on %s but authentication failed: dialer=%v acceptor=%v", dp, dialAuth, acceptAuth))
				}
				// every other connection the listener completed must have been closed by the dialer
				open := 0
				kind := map[string]bool{}
				var strays []*quic.Conn
				for _, c := range append(append([]*quic.Conn(nil), later...), committed) {
					// the one connection both sides use is the one the acceptor authenticated; any
					// other - also a second one over the same path (a candidate offered twice) - must go
					if c == nil || (c == committed && acceptAuth == nil) || (acceptAuth != nil && pathName(c) == dp) {
						continue
					}
					select {
					case <-c.Context().Done():
					default:
						if pp := unet.PathOf(c.RemoteAddr()); pp != nil && pp.LossPm > 0 {
							// the dialer's CONNECTION_CLOSE is sent once; on a lossy path it may
							// simply not have arrived: not judged
							res.Counters["open_stray_on_lossy_path_not_judged"]++
							continue
						}
						open++
						strays = append(strays, c)
					}
				}
				if len(strays) > 0 {
					// Who keeps them open? A dial the prober cancelled mid-handshake is destroyed
					// silently on its side: the listener's copy dies of the idle timeout (30 s).
					// A connection the dialing side still holds is kept alive by its keep-alives.
					// (Judged by what the listener sees, not by the states the prober reports.)
					mu.Unlock()
					pass(42 * time.Second)
					mu.Lock()
					for _, c := range strays {
						select {
						case <-c.Context().Done():
							kind["dial-cancelled-without-telling-the-listener"] = true
						default:
							kind["completed-on-dialer-but-not-closed"] = true
						}
					}
				}
				for a, st := range probeState {
					facts = append(facts, fmt.Sprintf("probe[%s]=%s", a, st))
				}
				for _, c := range later {
					closed := false
					select {
					case <-c.Context().Done():
						closed = true
					default:
					}
					facts = append(facts, fmt.Sprintf("later[%s] closed=%v", pathName(c), closed))
				}
				var kinds []string
				for k := range kind {
					kinds = append(kinds, k)
				}
				sort.Strings(kinds)
				res.Counters["later_connections_completed"] += int64(len(later))
				if committed != nil && dialed != nil && pathName(committed) != dp {
					// covered by split-connection
				}
				if open > 0 {
					addV("stray-connection-left-open", strings.Join(kinds, "+"), fmt.Sprintf("%d connection(s) that completed at the listener besides the one the dialer kept are still open 5 s after ProbeAndDial returned (%s)", open, strings.Join(kinds, ", ")))
				}
			}
			mu.Unlock()
			cancel()
			ln.Close()
			if dialed != nil {
				dialed.CloseWithError(0, "")
			}
			dtr.Close()
			ltr.Close()
			D.Close()
			L.Close()
			simElapsed = time.Since(start)
			time.Sleep(40 * time.Second)
		})
	}()
	if bubblePanic != "" && !strings.Contains(bubblePanic, "deadlock: main bubble goroutine has exited") {
		addV("panic", "bubble:"+firstLineApp(bubblePanic), bubblePanic)
	}
	sort.Strings(facts)
	verifsim.S = nil
	h := verifsim.Mix(sp.Seed, strings.Join(facts, ";"))
	res.LogHash, res.Steps, res.SimTime = h, len(sp.Paths), simElapsed
	if sp.Sched != nil {
		res.Steps = schedSteps
		res.Counters["scheduled_runs"]++
		res.Counters["scheduler_steps"] += int64(schedSteps)
		_ = schedHash
	}
	res.Nontrivial = len(sp.Paths) > 1
	for _, v := range viol {
		v.LogHash, v.Steps = verifsim.HashStr(h), len(sp.Paths)
		v.Trace = facts
	}
	res.Violations = viol
	res.Sample = map[string]any{"spec": sp, "observed": facts}
	return
}
