package app

// C12 harness: the real SnapshotSender admission logic (instrumented) with a
// simulated transfer function, driven by a scripted event loop goroutine plus
// the transfer goroutines it starts, under the seeded scheduler.

import (
	"context"
	"encoding/json"
	"fmt"
	"io"
	"log/slog"
	"sort"
	"strings"
	"sync"
	"sync/atomic"
	"testing"
	"testing/synctest"
	"time"

	"github.com/sheerbytes/sheerbytes/internal/termio"
	"github.com/sheerbytes/sheerbytes/internal/verifsim"
	"github.com/sheerbytes/sheerbytes/pkg/protocol"
)

type admOp struct {
	K string `json:"k"` // join accept leave ok fail cleanup jump
	P int    `json:"p,omitempty"`
}

type admSpec struct {
	Seed    uint64            `json:"seed"`
	Strat   verifsim.Strategy `json:"strategy"`
	MaxRecv int               `json:"max_recv"`
	Ops     []admOp           `json:"ops"`
	// Settle: the script waits for the sender to go quiet after every event; the
	// sequential reference model is then exact. Otherwise events overlap with the
	// aftermath of earlier ones and only interleaving-robust invariants are judged.
	Settle bool `json:"settle_between_events"`
	// LateSuccess: a cancelled transfer may still return success (it had just
	// finished when the cancellation arrived), chosen per transfer from the seed.
	LateSuccess bool `json:"cancelled_transfers_may_succeed,omitempty"`
}

type admHarness struct{}

func (admHarness) Gen(r *verifsim.SplitMix, tier string, idx int) any {
	sp := admSpec{Seed: r.Next(), MaxRecv: 1 + r.Intn(3), Settle: r.Chance(1, 2), LateSuccess: r.Chance(1, 3)}
	kinds := []string{"rand", "weighted", "pct", "pct", "fifo"}
	sp.Strat = verifsim.Strategy{Kind: kinds[r.Intn(len(kinds))], Seed: r.Next(), D: r.Intn(4), Horizon: 200, MaxW: 2 + r.Intn(8)}
	np := 1 + r.Intn(5)
	n := 3 + r.Intn(14)
	for i := 0; i < n; i++ {
		p := r.Intn(np)
		switch x := r.Intn(100); {
		case x < 15:
			sp.Ops = append(sp.Ops, admOp{K: "join", P: p})
		case x < 50:
			sp.Ops = append(sp.Ops, admOp{K: "accept", P: p})
		case x < 65:
			sp.Ops = append(sp.Ops, admOp{K: "leave", P: p})
		case x < 80:
			sp.Ops = append(sp.Ops, admOp{K: "ok", P: p})
		case x < 90:
			sp.Ops = append(sp.Ops, admOp{K: "fail", P: p})
		case x < 96:
			sp.Ops = append(sp.Ops, admOp{K: "cleanup"})
		default:
			sp.Ops = append(sp.Ops, admOp{K: "jump"})
		}
	}
	return sp
}

func (admHarness) Decode(raw json.RawMessage) (any, error) {
	var sp admSpec
	err := json.Unmarshal(raw, &sp)
	return sp, err
}

func (admHarness) Shrink(spec any) []any {
	sp := spec.(admSpec)
	var out []any
	for i := range sp.Ops {
		c := sp
		c.Ops = append(append([]admOp(nil), sp.Ops[:i]...), sp.Ops[i+1:]...)
		out = append(out, c)
	}
	if sp.Strat.Kind != "fifo" {
		c := sp
		c.Strat.Kind = "fifo"
		out = append(out, c)
	}
	if !sp.Settle {
		c := sp
		c.Settle = true
		out = append(out, c)
	}
	if sp.LateSuccess {
		c := sp
		c.LateSuccess = false
		out = append(out, c)
	}
	return out
}

type simTransfer struct {
	peer      string
	seq       int
	ctl       chan error
	ctx       context.Context
	finishing bool // set by the event loop when it tells the transfer to end
	returned  atomic.Bool
}

// live: the transfer occupies a slot - it has neither been told to end nor been cancelled.
// Both facts are established synchronously by the goroutine that causes them, so the
// answer does not depend on how far the transfer goroutine itself has got.
func (t *simTransfer) live() bool { return !t.finishing && t.ctx.Err() == nil }

var admT *testing.T

func (admHarness) Run(spec any) (res verifsim.RunResult) {
	sp := spec.(admSpec)
	res.Counters = map[string]int64{}
	var viol []*verifsim.Violation
	var frozen atomic.Bool // set when the scheduler stops: the drain phase is not an observation
	addV := func(class, sig, detail string) {
		if frozen.Load() {
			return
		}
		for _, v := range viol {
			if v.Class == class && v.Signature == sig {
				return
			}
		}
		viol = append(viol, &verifsim.Violation{Class: class, Signature: sig, Detail: detail})
	}
	var s *verifsim.Sched
	var bubblePanic string
	func() {
		defer func() {
			if r := recover(); r != nil {
				bubblePanic = fmt.Sprint(r)
			}
		}()
		synctest.Test(admT, func(t *testing.T) {
			strat := sp.Strat
			if sp.Settle {
				strat.StarveExact = "E"
			}
			s = verifsim.New(sp.Seed, strat)
			s.MaxSteps = 300000
			verifsim.S = s
			verifsim.Watch(s)
			verifsim.SetName("main")
			snd := &SnapshotSender{
				maxRecv:     sp.MaxRecv,
				receiverTTL: 10 * time.Minute,
				receivers:   make(map[string]*ReceiverState),
				active:      make(map[string]*transferSlot),
				signalCh:    make(map[string]chan protocol.Envelope),
				now:         time.Now,
				exitFn:      func(int) {},
				closeConn:   func() {},
				logger:      slog.New(slog.NewTextHandler(io.Discard, nil)),
				peerID:      "host",
			}
			var mu sync.Mutex
			var transfers []*simTransfer
			running := func() (n int, list []string) {
				for _, tr := range transfers {
					if tr.live() {
						n++
						list = append(list, tr.peer)
					}
				}
				sort.Strings(list)
				return
			}
			var panics []string
			everLeft := map[string]bool{} // written by the event loop before it delivers peer_left
			snd.transferFn = func(ctx context.Context, peerID string) error {
				tr := &simTransfer{peer: peerID, ctl: make(chan error, 1), ctx: ctx}
				mu.Lock()
				tr.seq = len(transfers)
				transfers = append(transfers, tr)
				if ctx.Err() != nil && !everLeft[peerID] {
					// (a transfer of a receiver that left - possibly before its goroutine got
					// going - legitimately sees a dead context; one that never left does not)
					addV("started-with-dead-context", "queued-receiver-started-cancelled", fmt.Sprintf("the transfer for queued receiver %s was started with an already cancelled context: it fails at once instead of being served", peerID))
				}
				if n, list := running(); n > sp.MaxRecv {
					dup := "distinct-receivers"
					for i := 1; i < len(list); i++ {
						if list[i] == list[i-1] {
							dup = "same-receiver-twice"
						}
					}
					var dbg []string
					for _, x := range transfers {
						dbg = append(dbg, fmt.Sprintf("#%d %s finishing=%v ctxErr=%v returned=%v", x.seq, x.peer, x.finishing, x.ctx.Err(), x.returned.Load()))
					}
					addV("too-many-transfers", dup, fmt.Sprintf("%d transfers running at once with max-receivers=%d: %v (step %d; all transfers so far: %v)", n, sp.MaxRecv, list, s.Steps, dbg))
				}
				mu.Unlock()
				var err error
				select {
				case <-ctx.Done():
					err = ctx.Err()
					if sp.LateSuccess && verifsim.Mix(sp.Seed, fmt.Sprint(tr.seq))%2 == 0 {
						err = nil
					}
				case err = <-tr.ctl:
				}
				mu.Lock()
				tr.returned.Store(true)
				mu.Unlock()
				return err
			}
			envelope := func(typ, from string, payload any) protocol.Envelope {
				env, _ := protocol.NewEnvelope(typ, protocol.NewMsgID(), payload)
				env.From = from
				env.SessionID = "s"
				return env
			}
			var eDone atomic.Bool
			ctx := context.Background()
			checkStructure := func(when string) {
				snd.mu.Lock()
				defer snd.mu.Unlock()
				seen := map[string]bool{}
				for _, q := range snd.queue {
					if seen[q] {
						addV("inconsistent-state", "duplicate-in-queue", fmt.Sprintf("%s: %s twice in queue %v", when, q, snd.queue))
					}
					seen[q] = true
					if _, ok := snd.active[q]; ok {
						addV("inconsistent-state", "queued-and-transferring", fmt.Sprintf("%s: %s is in the queue and holds a transfer slot", when, q))
					}
					if st := snd.receivers[q]; st != nil && (st.Status == ReceiverStatusDone || st.Status == ReceiverStatusFailed || st.Status == ReceiverStatusTransferring) {
						addV("inconsistent-state", "queued-and-"+st.Status, fmt.Sprintf("%s: %s is in the queue with status %s", when, q, st.Status))
					}
				}
			}
			// sequential reference model of the admission rule (exact in settle mode)
			var mQueue []string
			mActive := map[string]bool{}
			mRemoveQ := func(p string) {
				for i, q := range mQueue {
					if q == p {
						mQueue = append(mQueue[:i], mQueue[i+1:]...)
						return
					}
				}
			}
			mDispatch := func() {
				for len(mActive) < sp.MaxRecv && len(mQueue) > 0 {
					p := mQueue[0]
					mQueue = mQueue[1:]
					mActive[p] = true
				}
			}
			compareModel := func(when string) {
				snd.mu.Lock()
				q := strings.Join(snd.queue, ",")
				snd.mu.Unlock()
				mu.Lock()
				_, list := running()
				mu.Unlock()
				var ma []string
				for p := range mActive {
					ma = append(ma, p)
				}
				sort.Strings(ma)
				mq := strings.Join(mQueue, ",")
				if q != mq || strings.Join(list, ",") != strings.Join(ma, ",") {
					kind := "queue"
					if q == mq {
						kind = "running-set"
					}
					addV("admission-model-mismatch", kind, fmt.Sprintf("%s (sender quiet): sender has queue=[%s] running=%v; the reference admission model has queue=[%s] running=%v", when, q, list, mq, ma))
				}
			}
			verifsim.Go("E", func() {
				defer eDone.Store(true)
				defer func() {
					if r := recover(); r != nil {
						mu.Lock()
						panics = append(panics, fmt.Sprint(r))
						mu.Unlock()
					}
				}()
				for oi, op := range sp.Ops {
					peer := fmt.Sprintf("r%d", op.P)
					verifsim.Y("E/op:"+op.K, "op")
					switch op.K {
					case "join":
						snd.handleEnvelope(ctx, envelope(protocol.TypePeerJoined, "server", protocol.PeerJoined{Peer: protocol.PeerInfo{PeerID: peer, Role: "receiver"}}))
					case "accept":
						snd.handleEnvelope(ctx, envelope(protocol.TypeManifestAccept, peer, protocol.ManifestAccept{Mode: "all"}))
						if !mActive[peer] {
							present := false
							for _, q := range mQueue {
								if q == peer {
									present = true
								}
							}
							if !present {
								mQueue = append(mQueue, peer)
							}
						}
					case "leave":
						mu.Lock()
						everLeft[peer] = true
						mu.Unlock()
						snd.handleEnvelope(ctx, envelope(protocol.TypePeerLeft, "server", protocol.PeerLeft{PeerID: peer}))
						mRemoveQ(peer)
						delete(mActive, peer)
					case "ok", "fail":
						mu.Lock()
						var target *simTransfer
						for _, tr := range transfers {
							if tr.peer == peer && tr.live() {
								target = tr
							}
						}
						if target != nil {
							target.finishing = true
						}
						mu.Unlock()
						if target != nil {
							if op.K == "ok" {
								target.ctl <- nil
							} else {
								target.ctl <- fmt.Errorf("simulated transfer failure")
							}
							delete(mActive, peer)
						}
					case "cleanup":
						snd.cleanup()
					case "jump":
						time.Sleep(11 * time.Minute)
						snd.cleanup()
						// (the model's queue is untouched: a receiver that waits for a slot has
						// not left, however long it has been waiting)
					}
					mDispatch()
					when := fmt.Sprintf("after event %d (%s %s)", oi, op.K, peer)
					checkStructure(when)
					if sp.Settle {
						// E is starved in this mode: it only got here because every other
						// goroutine of the sender is blocked inside a simulated transfer or gone
						verifsim.Y("E/quiet", "op")
						compareModel(when)
					}
				}
			})
			outcome := s.Run(func() bool { return eDone.Load() && len(s.Blocked()) == 0 }, time.Now().Add(6*time.Hour), 0)
			// settled: every sender goroutine is blocked inside a simulated transfer or gone
			mu.Lock()
			n, list := running()
			snd.mu.Lock()
			q := append([]string(nil), snd.queue...)
			var activeList []string
			for p := range snd.active {
				activeList = append(activeList, p)
			}
			snd.mu.Unlock()
			sort.Strings(activeList)
			if outcome == verifsim.Finished && len(panics) == 0 {
				if len(q) > 0 && n < sp.MaxRecv {
					addV("slot-left-idle", "queue-not-empty", fmt.Sprintf("quiet state at the end: queue=%v but only %d of %d slots run a transfer (%v); active map=%v", q, n, sp.MaxRecv, list, activeList))
				}
				if strings.Join(activeList, ",") != strings.Join(list, ",") {
					addV("inconsistent-state", "active-map-vs-running", fmt.Sprintf("quiet state at the end: active map holds %v but the transfers actually running are %v", activeList, list))
				}
			}
			for _, p := range panics {
				addV("panic", firstLineApp(p), p)
			}
			if outcome != verifsim.Finished {
				addV("deadlock", strings.Join(s.Blocked(), ","), fmt.Sprintf("outcome=%v blocked=%v", outcome, s.Blocked()))
			}
			frozen.Store(true)
			res.Counters["transfers_started"] += int64(len(transfers))
			if sp.Settle {
				res.Counters["settle_mode_runs"]++
			}
			mu.Unlock()
			s.Stop()
			verifsim.Watch(nil)
			for round := 0; round < 3; round++ {
				mu.Lock()
				for _, tr := range transfers {
					select {
					case tr.ctl <- fmt.Errorf("end of run"):
					default:
					}
				}
				mu.Unlock()
				snd.hardStop()
				time.Sleep(5 * time.Second)
			}
		})
	}()
	verifsim.S = nil
	if bubblePanic != "" && !strings.Contains(bubblePanic, "deadlock: main bubble goroutine has exited") {
		addV("panic", "bubble:"+firstLineApp(bubblePanic), bubblePanic)
	}
	if s != nil {
		res.LogHash, res.Steps, res.SimTime, res.QStates = s.LogHash, s.Steps, s.Since(), len(s.QStates)
		res.Nontrivial = s.Steps > 10
		for _, v := range viol {
			v.LogHash, v.Steps, v.Trace = verifsim.HashStr(s.LogHash), s.Steps, s.Log
		}
	}
	res.Violations = viol
	res.Sample = sp
	return
}

func firstLineApp(s string) string {
	if i := strings.IndexByte(s, '\n'); i >= 0 {
		return s[:i]
	}
	return s
}

func TestVerif(t *testing.T) {
	e, ok := verifsim.LoadWorkerEnv()
	if !ok {
		t.Skip("not a verif worker")
	}
	termio.Init()
	admT = t
	var h verifsim.Harness
	switch e.Prop {
	case "C12":
		h = admHarness{}
	case "C08":
		h = authHarness{}
	case "C09":
		h = raceHarness{}
	case "C08T2":
		h = t2authHarness{}
	case "C03T2", "C01T2", "C02T2":
		h = t2txHarness{prop: e.Prop}
	default:
		t.Fatalf("unknown property %s for package app", e.Prop)
	}
	if rc := verifsim.WorkerMain(h, e); rc != 0 {
		t.Fatalf("worker exit %d", rc)
	}
}
