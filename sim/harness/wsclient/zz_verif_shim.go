package wsclient

// Added by the /verif build overlay only: lets a simulation route the real
// client's WebSocket dial through the simulated TCP network.

import (
	"context"
	"net"
)

func VerifSetNetDial(f func(ctx context.Context, network, addr string) (net.Conn, error)) {
	dialer.NetDialContext = f
}
