package transfer

// C01, part "C01BIG": a file larger than 4 GiB. Source and partial output are
// sparse files: pseudo-random bytes only in the first chunk, in the last chunk
// below the 4 GiB mark and in everything above it, holes elsewhere. The output
// directory is a prior state in which every chunk below a drawn point (at or
// just below 4 GiB) is present and marked complete, so only the few chunks near
// and above 2^32 travel through the simulated network. What this reaches that
// small files cannot: 32-bit arithmetic on offsets and chunk indices.

import (
	"bytes"
	"encoding/json"
	"fmt"
	"os"
	"path/filepath"
	"strings"
	"time"

	"github.com/sheerbytes/sheerbytes/internal/verifsim"
)

type bigSpec struct {
	Seed        uint64            `json:"seed"`
	ContentSeed uint64            `json:"content_seed"`
	Strat       verifsim.Strategy `json:"strategy"`
	ChunkLog2   int               `json:"chunk_log2"`       // 20..22: 1-4 MiB
	Above       int               `json:"bytes_above_4gib"` // how far the file reaches beyond 2^32
	MarkedBelow int               `json:"unmarked_chunks_below_4gib"`
	Streams     int               `json:"streams"`
	Hash        string            `json:"hash"`
	SegMax      int               `json:"seg_max"`
}

type bigHarness struct{}

func (bigHarness) Gen(r *verifsim.SplitMix, tier string, idx int) any {
	sp := bigSpec{Seed: r.Next(), ContentSeed: r.Next(), ChunkLog2: 20 + r.Intn(3), Streams: 1 + r.Intn(3)}
	cs := 1 << sp.ChunkLog2
	sp.Above = []int{1, cs - 1, cs, cs + 123, 2*cs + 7}[r.Intn(5)]
	sp.MarkedBelow = r.Intn(2)
	sp.Hash = []string{"crc32c", "xxhash64", "none"}[r.Intn(3)]
	sp.SegMax = 65536
	sp.Strat = verifsim.Strategy{Kind: []string{"fifo", "rand", "weighted"}[r.Intn(3)], Seed: r.Next(), MaxW: 6, Horizon: 300}
	return sp
}

func (bigHarness) Decode(raw json.RawMessage) (any, error) {
	var sp bigSpec
	err := json.Unmarshal(raw, &sp)
	return sp, err
}

func (bigHarness) Shrink(spec any) []any {
	sp := spec.(bigSpec)
	var out []any
	if sp.Streams > 1 {
		c := sp
		c.Streams = 1
		out = append(out, c)
	}
	if sp.Strat.Kind != "fifo" {
		c := sp
		c.Strat.Kind = "fifo"
		out = append(out, c)
	}
	if sp.MarkedBelow > 0 {
		c := sp
		c.MarkedBelow = 0
		out = append(out, c)
	}
	return out
}

const fourGiB = int64(1) << 32

// bigRegions: the byte ranges of the file that hold pseudo-random data.
func bigRegions(size, cs int64) [][2]int64 {
	return [][2]int64{{0, cs}, {fourGiB - cs, size}}
}

func bigFill(path string, seed uint64, size, cs int64, upTo int64) error {
	f, err := os.OpenFile(path, os.O_RDWR|os.O_CREATE|os.O_TRUNC, 0o644)
	if err != nil {
		return err
	}
	defer f.Close()
	if err := f.Truncate(size); err != nil {
		return err
	}
	for _, rg := range bigRegions(size, cs) {
		lo, hi := rg[0], rg[1]
		if hi > upTo {
			hi = upTo
		}
		if lo >= hi {
			continue
		}
		// content is a function of the absolute offset, so that source and prior state agree
		b := make([]byte, hi-lo)
		for i := range b {
			off := uint64(lo) + uint64(i)
			b[i] = byte(verifsim.Mix(seed, "") >> (8 * (off % 8)) ^ off*0x9E3779B97F4A7C15 >> 56)
		}
		if _, err := f.WriteAt(b, lo); err != nil {
			return err
		}
	}
	return nil
}

func (bigHarness) Run(spec any) (res verifsim.RunResult) {
	sp := spec.(bigSpec)
	res.Counters = map[string]int64{}
	src, out, cleanup := newRunDirs()
	defer cleanup()
	cs := int64(1) << sp.ChunkLog2
	size := fourGiB + int64(sp.Above)
	srcFile := filepath.Join(src, "big.bin")
	if err := bigFill(srcFile, sp.ContentSeed, size, cs, size); err != nil {
		res.Skipped = true // no room / no sparse files here
		res.Counters["big_cannot_create"]++
		return
	}
	stamp := time.Unix(1700000000+int64(sp.ContentSeed%100000), 0)
	os.Chtimes(srcFile, stamp, stamp)
	os.Chtimes(src, stamp, stamp)
	tsp := txSpec{Prop: "C01", Seed: sp.Seed, ContentSeed: sp.ContentSeed, Strat: sp.Strat, Chunk: uint32(cs), Streams: sp.Streams, Conns: 1,
		ResumeS: true, ResumeR: true, Hash: sp.Hash, NoRoot: true, Scan: "root", SenderCli: true, SegMax: sp.SegMax}
	m, _, _, err := scanFor(&tsp, src)
	if err != nil || len(m.Items) == 0 {
		res.Skipped = true
		return
	}
	var it = m.Items[0]
	for _, x := range m.Items {
		if !x.IsDir {
			it = x
		}
	}
	// prior state: everything below the mark is in place and recorded
	marked := uint32(fourGiB/cs) - uint32(sp.MarkedBelow)
	dst := filepath.Join(out, "big.bin")
	if err := bigFill(dst, sp.ContentSeed, size, cs, int64(marked)*cs); err != nil {
		res.Skipped = true
		return
	}
	sc, err := CreateSidecar(SidecarPath(out, "", sidecarIdentifier(it)), it.ID, it.Size, uint32(cs))
	if err != nil {
		res.Skipped = true
		return
	}
	for i := uint32(0); i < marked; i++ {
		sc.MarkComplete(i)
	}
	if err := sc.Flush(); err != nil {
		res.Skipped = true
		return
	}
	ep := runEpisode(epCfg{sp: &tsp, seed: sp.Seed, src: src, out: out, faultFree: true})
	fillRes(&res, ep)
	res.Counters["big_runs"]++
	res.Sample = map[string]any{"spec": sp, "file_size": size, "chunks_marked_before": marked, "sender": errStr(ep.sendErr), "receiver": errStr(ep.recvErr), "frames": len(ep.frames)}
	v := func(class, sig, detail string) {
		res.Violations = append(res.Violations, &verifsim.Violation{Class: class, Signature: sig, Detail: detail, LogHash: verifsim.HashStr(ep.hash), Steps: ep.steps, Trace: ep.log})
	}
	if ep.bubblePanic != "" && !strings.Contains(ep.bubblePanic, "deadlock: main bubble goroutine has exited") {
		v("harness-panic", firstLine(ep.bubblePanic), ep.bubblePanic)
		return
	}
	if ep.nodePanic != "" {
		v("panic", "big:"+firstLine(ep.nodePanic), ep.nodePanic)
		return
	}
	if !(ep.sendRet && ep.recvRet && ep.sendErr == nil && ep.recvErr == nil) {
		res.Skipped = true // not C01's business
		res.Counters["big_not_successful"]++
		return
	}
	res.Counters["big_both_succeeded"]++
	fi, err := os.Stat(dst)
	if err != nil || fi.Size() != size {
		v("tree-differs", "big:length", fmt.Sprintf("file of %d bytes: both sides reported success, output has %v bytes (%v)", size, fi, err))
		return
	}
	sf, _ := os.Open(srcFile)
	df, _ := os.Open(dst)
	defer sf.Close()
	defer df.Close()
	for _, rg := range bigRegions(size, cs) {
		a, b := make([]byte, rg[1]-rg[0]), make([]byte, rg[1]-rg[0])
		sf.ReadAt(a, rg[0])
		df.ReadAt(b, rg[0])
		if !bytes.Equal(a, b) {
			first := int64(0)
			for i := range a {
				if a[i] != b[i] {
					first = rg[0] + int64(i)
					break
				}
			}
			v("tree-differs", "big:content", fmt.Sprintf("file of %d bytes (4 GiB + %d), chunk %d, chunks below %d present before: both sides reported success but the output differs from the source, first at offset %d", size, sp.Above, cs, marked, first))
			return
		}
	}
	return
}
