package transfer

// C02: no false success under faults; bounded stop.

import (
	"encoding/json"
	"fmt"
	"os"
	"path/filepath"
	"sort"
	"strings"

	"github.com/sheerbytes/sheerbytes/internal/verifsim"
	"github.com/sheerbytes/sheerbytes/pkg/manifest"
)

type c02Harness struct{}

var c02Kinds = []string{"close_s", "close_r", "abort", "cancel_s", "cancel_r", "flip", "flip", "src_shrink", "src_unlink", "obstruct", "fs_err"}
var fsErrOps = []string{"writeat", "open", "mkdirall", "truncate", "writefile", "rename"}

func (c02Harness) Gen(r *verifsim.SplitMix, tier string, idx int) any {
	sp := genBase(r, "C02", 4)
	if len(sp.Files) == 0 {
		sp.Files = []txFile{{P: "f0.bin", N: int(sp.Chunk) + 1}}
	}
	nf := 1
	if r.Chance(1, 5) {
		nf = 2
	}
	for i := 0; i < nf; i++ {
		f := txFault{Kind: c02Kinds[r.Intn(len(c02Kinds))], At: -1 - r.Intn(1000), Arg: r.Intn(1 << 20), Arg2: r.Intn(12)}
		switch f.Kind {
		case "fs_err":
			f.Op = fsErrOps[r.Intn(len(fsErrOps))]
			f.At = r.Intn(6)
			f.Arg2 = r.Intn(2)
		case "obstruct":
			f.At = 0
		}
		sp.Faults = append(sp.Faults, f)
	}
	if r.Chance(1, 4) {
		// a resumed transfer from a healthy prior state (written directly, every bitmap shape):
		// with a verify tail the sender repeats chunks the receiver already holds, and a fault
		// may strike such a repeat
		sp.ResumeS, sp.ResumeR = true, true
		sp.Tail = 1 + uint32(r.Intn(2))
		if sp.Hash == "none" {
			sp.Hash = "crc32c"
		}
		for i := 0; i < 1+r.Intn(2); i++ {
			sp.Damage = append(sp.Damage, txDamage{Kind: "synthetic", File: r.Intn(8), Arg: r.Intn(1 << 20)})
		}
		if r.Chance(2, 3) {
			sp.Faults[0].Kind = "flip"
			if sp.Faults[0].At >= 0 {
				sp.Faults[0].At = -1 - r.Intn(1000)
			}
		}
	}
	if tier == "thorough" && idx%10 == 0 {
		// exhaustive placement of the (single) positioned fault over every delivery index
		sp.Faults = sp.Faults[:1]
		if sp.Faults[0].At < 0 {
			sp.EnumFault = true
			for i := range sp.Files {
				if sp.Files[i].N > 3*int(sp.Chunk) {
					sp.Files[i].N = 3 * int(sp.Chunk)
				}
				if sp.Files[i].N > 3000 {
					sp.Files[i].N = 3000
				}
			}
			if sp.SegMax < 200 {
				sp.SegMax = 200
			}
		}
	}
	return sp
}

func (c02Harness) Decode(raw json.RawMessage) (any, error) {
	var sp txSpec
	err := json.Unmarshal(raw, &sp)
	return sp, err
}

func (c02Harness) Shrink(spec any) []any {
	sp := spec.(txSpec)
	out := shrinkTx(sp)
	if sp.EnumFault {
		c := cloneSpec(sp)
		c.EnumFault = false
		out = append([]any{c}, out...)
	}
	return out
}

// placeFaults turns fractional positions (At<0 encodes -(1+permille)) into
// delivery indices of the fault-free execution of the same spec.
func placeFaults(fs []txFault, deliveries int) []txFault {
	out := append([]txFault(nil), fs...)
	for i := range out {
		if out[i].At < 0 {
			pm := -out[i].At - 1
			out[i].At = deliveries * pm / 1000
		}
	}
	return out
}

func obstruct(sp *txSpec, out string, m manifest.Manifest, f txFault) string {
	var files []manifest.FileItem
	for _, it := range m.Items {
		if !it.IsDir {
			files = append(files, it)
		}
	}
	if len(files) == 0 {
		return ""
	}
	base := sp.outBase(out, m)
	if f.Arg2%3 == 2 {
		// a regular file where a directory of the manifest must go - by preference one that
		// holds no file (nothing but the directory's own creation can notice)
		var dirs, empty []manifest.FileItem
		for _, it := range m.Items {
			if !it.IsDir {
				continue
			}
			dirs = append(dirs, it)
			holds := false
			for _, fi := range files {
				if strings.HasPrefix(fi.RelPath, it.RelPath+"/") {
					holds = true
				}
			}
			if !holds {
				empty = append(empty, it)
			}
		}
		kind := "file-at-empty-dir-item-path"
		if len(empty) == 0 {
			empty, kind = dirs, "file-at-dir-item-path"
		}
		if len(empty) > 0 {
			d := empty[f.Arg%len(empty)]
			p := filepath.Join(base, filepath.FromSlash(d.RelPath))
			os.MkdirAll(filepath.Dir(p), 0o755)
			if err := os.WriteFile(p, []byte("not a directory"), 0o644); err == nil {
				return kind
			}
		}
	}
	it := files[f.Arg%len(files)]
	p := filepath.Join(base, filepath.FromSlash(it.RelPath))
	if f.Arg2%2 == 0 || !strings.Contains(it.RelPath, "/") {
		// a non-empty directory where the file must go
		os.MkdirAll(filepath.Join(p, "occupied"), 0o755)
		return "dir-at-file-path"
	}
	// a regular file where a parent directory must go
	parent := filepath.Dir(p)
	os.MkdirAll(filepath.Dir(parent), 0o755)
	os.WriteFile(parent, []byte("not a directory"), 0o644)
	return "file-at-dir-path"
}

func (h c02Harness) Run(spec any) (res verifsim.RunResult) {
	sp := spec.(txSpec)
	res.Counters = map[string]int64{}
	src, out, cleanup := newRunDirs()
	defer cleanup()
	if err := writeTree(src, sp.ContentSeed, sp.Files, sp.Dirs); err != nil {
		res.Skipped = true
		return
	}
	prior := func() {
		if len(sp.Damage) == 0 {
			return
		}
		if m0, _, _, err := scanFor(&sp, src); err == nil {
			os.MkdirAll(sp.outBase(out, m0), 0o755)
			syntheticSrc = src
			tornChunks = nil
			for _, d := range sp.Damage {
				if k := applyDamage(&sp, out, m0, d); k != "" {
					res.Counters["prior_state:"+k]++
				}
			}
		}
	}
	prior()
	// fault-free execution of the same spec: yields the delivery count
	dry := runEpisode(epCfg{sp: &sp, seed: sp.Seed, src: src, out: out, faultFree: true})
	res.Counters["dry_runs"]++
	if dry.outcome != verifsim.Finished || dry.sendErr != nil || dry.recvErr != nil {
		// C03's business
		res.Skipped = true
		res.Counters["dry_run_not_clean"]++
		fillRes(&res, dry)
		return
	}
	positions := []int{-1}
	if sp.EnumFault {
		positions = positions[:0]
		for at := 0; at <= dry.deliveries; at++ {
			positions = append(positions, at)
		}
	}
	for _, pos := range positions {
		os.RemoveAll(out)
		os.MkdirAll(out, 0o755)
		// the source tree may have been damaged by a previous position
		os.RemoveAll(src)
		writeTree(src, sp.ContentSeed, sp.Files, sp.Dirs)
		prior()
		faults := placeFaults(sp.Faults, dry.deliveries)
		if pos >= 0 {
			faults[0].At = pos
		}
		for _, f := range faults {
			if f.Kind == "obstruct" {
				if k := obstruct(&sp, out, dry.manifest, f); k != "" {
					res.Counters["fault_fired:obstruct:"+k]++
				}
			}
		}
		sp2 := sp
		restrictFlips(&sp2, faults, dry)
		ep := runEpisode(epCfg{sp: &sp2, seed: sp.Seed, src: src, out: out, faults: faults})
		fillRes(&res, ep)
		res.Counters["faulted_runs"]++
		fired := len(ep.faultFired) > 0
		for _, f := range faults {
			if f.Kind == "obstruct" {
				fired = true
			}
		}
		if !fired {
			res.Counters["fault_never_fired"]++
			continue
		}
		if res.Sample == nil {
			res.Sample = map[string]any{"spec": sp, "faults_placed": faults, "fault_free_deliveries": dry.deliveries, "outcome": ep.outcome.String(), "sender": errStr(ep.sendErr), "receiver": errStr(ep.recvErr)}
		}
		for _, v := range judgeC02(&sp, ep, out, faults) {
			v.LogHash, v.Steps, v.Trace = verifsim.HashStr(ep.hash), ep.steps, ep.log
			if pos >= 0 {
				v.Detail = fmt.Sprintf("[fault at delivery %d of %d] ", pos, dry.deliveries) + v.Detail
			}
			dup := false
			for _, x := range res.Violations {
				if x.Class == v.Class && x.Signature == v.Signature {
					dup = true
				}
			}
			if !dup {
				res.Violations = append(res.Violations, v)
			}
		}
	}
	if res.Counters["faulted_runs"] == res.Counters["fault_never_fired"] {
		res.Skipped = true
	}
	return
}

// restrictFlips makes "flip" faults hit only chunk payload or the checksum
// field of a data frame (the property speaks of payload/checksum corruption).
// The position is chosen from the fault-free wire log: the fault's delivery
// index is mapped to a (stream, byte range) there.
func restrictFlips(sp *txSpec, faults []txFault, dry *epResult) {
	// nothing to precompute: the flip hook decides per delivery using flipTarget
	_ = sp
	_ = faults
	_ = dry
}

func faultKinds(fs []txFault, ep *epResult) string {
	set := map[string]bool{}
	for k := range ep.faultFired {
		if i := strings.IndexByte(k, ':'); i >= 0 {
			k = k[:i]
		}
		set[k] = true
	}
	for _, f := range fs {
		if f.Kind == "obstruct" {
			set["obstruct"] = true
		}
	}
	var ks []string
	for k := range set {
		ks = append(ks, k)
	}
	sort.Strings(ks)
	return strings.Join(ks, "+")
}

func judgeC02(sp *txSpec, ep *epResult, out string, faults []txFault) []*verifsim.Violation {
	var vs []*verifsim.Violation
	kinds := faultKinds(faults, ep)
	add := func(class, sig, detail string) {
		vs = append(vs, &verifsim.Violation{Class: class, Signature: sig, Detail: detail})
	}
	if ep.bubblePanic != "" && !strings.Contains(ep.bubblePanic, "deadlock: main bubble goroutine has exited") {
		add("harness-panic", firstLine(ep.bubblePanic), ep.bubblePanic)
		return vs
	}
	if ep.nodePanic != "" {
		add("panic", firstLine(ep.nodePanic), ep.nodePanic)
	}
	if ep.outcome != verifsim.Finished {
		add("hang", kinds+":"+hangSignature(ep), fmt.Sprintf("fault %s at t=%v (step %d): after %v simulated sender returned=%v (%s) receiver returned=%v (%s); waiting at %v", kinds, ep.faultTime, ep.faultStep, ep.sim, ep.sendRet, errStr(ep.sendErr), ep.recvRet, errStr(ep.recvErr), ep.blocked))
		return vs
	}
	var files []manifest.FileItem
	for _, it := range ep.manifest.Items {
		if !it.IsDir {
			files = append(files, it)
		}
	}
	if ep.recvRet && ep.recvErr == nil {
		base := sp.outBase(out, ep.manifest)
		prefix := ""
		if !sp.NoRoot {
			prefix = ep.manifest.Root
		}
		want := expectedDigest(prefix, sp.ContentSeed, sp.Files, sp.Dirs)
		got, err := digestTree(out, out, base)
		if err != nil {
			add("harness-panic", "digest", err.Error())
		} else if d := diffDigests(want, got); d != "" {
			// obstruction leftovers are part of "got"; they make the tree different, which is the point
			add("receiver-false-success", kinds+":"+treeDiffSig(want, got), fmt.Sprintf("fault %s: receiver reported success but its tree differs from the source: %s (sender: %s)", kinds, d, errStr(ep.sendErr)))
		}
	}
	if ep.sendRet && ep.sendErr == nil {
		okDone := map[uint64]bool{}
		for _, d := range ep.rw.dones {
			if d.OK {
				okDone[d.StreamID] = true
			}
		}
		var missing []string
		for _, it := range files {
			if !okDone[fileKeyForItem(it)] {
				missing = append(missing, it.RelPath)
			}
		}
		if len(missing) > 0 {
			add("sender-false-success", kinds, fmt.Sprintf("fault %s: sender reported success but the receiver never wrote FileDone{ok} for %v (receiver: %s)", kinds, missing, errStr(ep.recvErr)))
		}
	}
	return vs
}
