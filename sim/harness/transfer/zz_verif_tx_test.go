package transfer

// TX: the real SendManifestMultiStream / RecvManifestMultiStream as two nodes
// over the simulated network and the interposed file system, inside one
// synctest bubble under the seeded scheduler.

import (
	"context"
	"encoding/json"
	"errors"
	"fmt"
	"os"
	"path/filepath"
	"sort"
	"strings"
	"sync"
	"sync/atomic"
	"testing"
	"testing/synctest"
	"time"
	"unicode/utf8"

	"github.com/sheerbytes/sheerbytes/internal/verifsim"
	"github.com/sheerbytes/sheerbytes/pkg/manifest"
)

type txFault struct {
	Kind string `json:"kind"` // close_s close_r abort cancel_s cancel_r flip src_shrink src_unlink obstruct fs_err
	At   int    `json:"at"`   // delivery index the fault is anchored to (net / cancel / src faults)
	Arg  int    `json:"arg,omitempty"`
	Arg2 int    `json:"arg2,omitempty"`
	Op   string `json:"op,omitempty"` // fs_err: operation kind
}

type txSpec struct {
	Prop        string            `json:"prop"`
	Seed        uint64            `json:"seed"`
	Strat       verifsim.Strategy `json:"strategy"`
	Files       []txFile          `json:"files"`
	Dirs        []string          `json:"dirs,omitempty"`
	ContentSeed uint64            `json:"content_seed"`
	Chunk       uint32            `json:"chunk"`
	Streams     int               `json:"streams"`
	Conns       int               `json:"conns"`
	ResumeS     bool              `json:"resume_s"`
	ResumeR     bool              `json:"resume_r"`
	Hash        string            `json:"hash,omitempty"`
	NoRoot      bool              `json:"no_root"`
	Scan        string            `json:"scan"` // root | paths
	SenderCli   bool              `json:"sender_is_quic_client"`
	SegMax      int               `json:"seg_max"`
	Window      int               `json:"window,omitempty"`
	Delta       bool              `json:"delta_fns"`
	RecvStreams int               `json:"recv_parallel,omitempty"`
	Faults      []txFault         `json:"faults,omitempty"`
	Chain       []txLink          `json:"chain,omitempty"` // interrupted runs before the final, healthy one
	Damage      []txDamage        `json:"damage,omitempty"`
	DamageAfter int               `json:"damage_after_run,omitempty"`
	// sender knobs left at their defaults when zero
	SmallThr    int64    `json:"small_threshold,omitempty"`
	MediumThr   int64    `json:"medium_threshold,omitempty"`
	SmallFrac   float64  `json:"small_slot_frac,omitempty"`
	AgingMs     int      `json:"aging_after_ms,omitempty"`
	Tail        uint32   `json:"resume_verify_tail,omitempty"`
	SlowHashMs  int      `json:"receiver_hash_read_takes_ms,omitempty"`   // slow disk under the receiver's verification hash
	ChunkVary   []uint32 `json:"chunk_size_per_file,omitempty"`           // the sender's ParamSource hands these out in turn (one call per file start)
	SlowWriteMs int      `json:"receiver_chunk_write_takes_ms,omitempty"` // ... and under its chunk writes: the transfer spans simulated time
	EnumFault   bool     `json:"enumerate_fault_position,omitempty"`
}

// txLink is one interrupted run of a history.
type txLink struct {
	Seed  uint64              `json:"seed"`
	Crash *verifsim.CrashPlan `json:"crash,omitempty"`
	Fault *txFault            `json:"fault,omitempty"`
	Exit  bool                `json:"receiver_exit_without_flush,omitempty"`
	Chunk uint32              `json:"chunk_size_of_this_run,omitempty"` // sender was started with another --chunk-size
}

// (txSpec.DamageAfter: k>0 = the damage is applied after the k-th interrupted run, and
// the remaining runs of the history meet it; 0 = after the last interrupted run)
type txDamage struct {
	Kind string `json:"kind"`
	File int    `json:"file"`
	Arg  int    `json:"arg,omitempty"`
}

type epResult struct {
	delayed            int
	signalled          bool
	sendErr, recvErr   error
	sendRet, recvRet   bool
	sendAt, recvAt     time.Duration
	outcome            verifsim.Outcome
	blocked            []string
	steps              int
	hash               uint64
	sim                time.Duration
	qstates            int
	log                []string
	wire               *wireLog
	sw                 senderWire
	rw                 recvWire
	frames             []wFrame
	bubblePanic        string
	nodePanic          string
	deliveries         int
	faultFired         map[string]int
	faultStep          int
	faultTime          time.Duration
	crashFired         bool
	crashSite          string
	crashSeen          map[string]int
	stalls             int
	windowBlk          int
	fsCounts           map[string]int
	exits              map[string]int
	crashViolations    []string
	manifest           manifest.Manifest
	sCtlKey, rCtlKey   string
	sidecarsAtCrash    map[string][]byte
	lastGoodViolations []string
}

type epCfg struct {
	sp          *txSpec
	seed        uint64
	src, out    string
	faults      []txFault
	crash       *verifsim.CrashPlan
	faultFree   bool
	exitNoFlush bool
	onCrash     func(node string, ep *epResult)
}

var txT *testing.T

func isRecvDead(s *verifsim.Sched) bool { return s.IsDead("R") }

func scanFor(sp *txSpec, src string) (manifest.Manifest, func(string) string, string, error) {
	if sp.Scan == "paths" {
		ents, err := os.ReadDir(src)
		if err != nil {
			return manifest.Manifest{}, nil, "", err
		}
		var paths []string
		for _, e := range ents {
			paths = append(paths, filepath.Join(src, e.Name()))
		}
		if len(paths) == 0 {
			// an empty selection cannot be scanned; fall back to root mode
			m, err := manifest.Scan(src)
			return m, nil, src, err
		}
		m, err := manifest.ScanPaths(paths)
		resolver := func(rel string) string { return filepath.Join(src, filepath.FromSlash(rel)) }
		return m, resolver, ".", err
	}
	m, err := manifest.Scan(src)
	return m, nil, src, err
}

func runEpisode(cfg epCfg) (ep *epResult) {
	sp := cfg.sp
	ep = &epResult{faultFired: map[string]int{}, wire: newWireLog()}
	m, resolver, rootPath, err := scanFor(sp, cfg.src)
	if err != nil {
		ep.bubblePanic = "scan: " + err.Error()
		return
	}
	ep.manifest = m
	var s *verifsim.Sched
	func() {
		defer func() {
			if r := recover(); r != nil {
				ep.bubblePanic = fmt.Sprint(r)
			}
		}()
		synctest.Test(txT, func(t *testing.T) {
			s = verifsim.New(cfg.seed, sp.Strat)
			s.FS = verifsim.NewFS()
			s.FS.OnOp = trackOps
			if sp.SlowHashMs > 0 || sp.SlowWriteMs > 0 {
				s.FS.Delay = func(op *verifsim.FSOp) time.Duration {
					if op.Node == "R" && strings.HasPrefix(op.Site, "hashFileChunk") {
						return time.Duration(sp.SlowHashMs) * time.Millisecond
					}
					if op.Node == "R" && op.Kind == "writeat" && !strings.Contains(op.Path, ".thruflux_resumedata") {
						return time.Duration(sp.SlowWriteMs) * time.Millisecond
					}
					return 0
				}
			}
			s.Crash = nil
			if cfg.crash != nil {
				c := *cfg.crash
				s.Crash = &c
			}
			verifsim.S = s
			verifsim.Watch(s)
			verifsim.SetName("main")
			globalSidecarFlushRegistry = sidecarFlushRegistry{}
			net := verifsim.NewNet(s, verifsim.NetCfg{SegMax: sp.SegMax, StreamWindow: sp.Window})
			s.Events = net.Events
			net.Tap = ep.wire.tap
			nconns := sp.Conns
			if nconns < 1 {
				nconns = 1
			}
			var sConns, rConns []Conn
			var sN, rN []*verifsim.NConn
			for i := 0; i < nconns; i++ {
				c, sv := net.Pair(fmt.Sprintf("c%d", i))
				if sp.SenderCli {
					sConns, rConns = append(sConns, txConn{c}), append(rConns, txConn{sv})
					sN, rN = append(sN, c), append(rN, sv)
				} else {
					sConns, rConns = append(sConns, txConn{sv}), append(rConns, txConn{c})
					sN, rN = append(sN, sv), append(rN, c)
				}
			}
			first := uint64(1)
			if sp.SenderCli {
				first = 0
			}
			ep.sCtlKey = fmt.Sprintf("%s/%d", sN[0].Name, first)
			ep.rCtlKey = fmt.Sprintf("%s/%d", rN[0].Name, first)
			var sConn, rConn Conn = sConns[0], rConns[0]
			if nconns > 1 {
				sConn, _ = NewMultiConn(sConns)
				rConn, _ = NewMultiConn(rConns)
			}
			ctxS, cancelS := context.WithCancel(context.Background())
			ctxR, cancelR := context.WithCancel(context.Background())
			start := time.Now()
			var mu sync.Mutex
			var done atomic.Int32
			frozen := false // set when the scheduler stops: results of the drain phase are not observations

			// faults anchored to delivery indices
			byAt := map[int][]txFault{}
			for _, f := range cfg.faults {
				switch f.Kind {
				case "obstruct", "fs_err":
				default:
					byAt[f.At] = append(byAt[f.At], f)
				}
			}
			fileItems := make([]manifest.FileItem, 0)
			for _, it := range m.Items {
				if !it.IsDir {
					fileItems = append(fileItems, it)
				}
			}
			srcPathOf := func(rel string) string {
				if resolver != nil {
					return resolver(rel)
				}
				return filepath.Join(cfg.src, filepath.FromSlash(rel))
			}
			noteFault := func(kind string) {
				ep.faultFired[kind]++
				if ep.faultStep == 0 {
					ep.faultStep = s.Steps
					ep.faultTime = time.Since(start)
				}
			}
			var pendingFlips []txFault
			net.OnDeliver = func(d *verifsim.Delivery) verifsim.Action {
				fs := byAt[d.Index]
				if len(pendingFlips) > 0 {
					// a flip waits for the first delivery at or after its index that carries payload/CRC bytes
					fs = append(append([]txFault(nil), fs...), pendingFlips...)
					pendingFlips = nil
				}
				act := verifsim.ActNone
				for _, f := range fs {
					switch f.Kind {
					case "close_s":
						noteFault(f.Kind)
						act = closeAction(d, sN)
					case "close_r":
						noteFault(f.Kind)
						act = closeAction(d, rN)
					case "abort":
						noteFault(f.Kind)
						act = verifsim.ActAbort
					case "cancel_s":
						noteFault(f.Kind)
						cancelS()
					case "cancel_r":
						noteFault(f.Kind)
						cancelR()
					case "flip":
						// only chunk payload or the checksum field of a sender data frame
						key := fmt.Sprintf("%s/%d", d.From.Name, d.Stream)
						if key == ep.sCtlKey || !senderSide(key, sp.SenderCli) || len(d.Data) == 0 {
							pendingFlips = append(pendingFlips, f)
							break
						}
						if bi, region, ok := flipTarget(ep.wire.streams[key], d.Offset, len(d.Data), f.Arg); ok {
							noteFault("flip:" + region)
							d.Data = append([]byte(nil), d.Data...)
							d.Data[bi] ^= 1 << (f.Arg % 8)
						} else {
							pendingFlips = append(pendingFlips, f)
						}
					case "src_shrink":
						if len(fileItems) > 0 {
							it := fileItems[f.Arg%len(fileItems)]
							if it.Size > 0 {
								noteFault(f.Kind)
								cs := int64(sp.Chunk)
								lastStart := (it.Size - 1) / cs * cs
								to := it.Size / 2
								switch f.Arg2 % 6 {
								case 1:
									to = it.Size - 1
								case 2:
									to = lastStart + (it.Size-lastStart)/2 // inside the final chunk
								case 3:
									to = lastStart // exactly the start of the final chunk
								case 4:
									to = 0
								case 5:
									if it.Size > cs {
										to = cs + 1 // inside the second chunk
									}
								}
								// shrink only: after an earlier shrink of the same file a target above its
								// present length would grow it again, with zeros - a file of the old size and
								// other content, which nobody can notice and the property does not speak of
								if fi, err := os.Stat(srcPathOf(it.RelPath)); err == nil && to < fi.Size() {
									_ = os.Truncate(srcPathOf(it.RelPath), to)
								}
							}
						}
					case "src_unlink":
						if len(fileItems) > 0 {
							noteFault(f.Kind)
							_ = os.Remove(srcPathOf(fileItems[f.Arg%len(fileItems)].RelPath))
						}
					}
				}
				return act
			}
			// file-system error faults
			var fsErrs []txFault
			for _, f := range cfg.faults {
				if f.Kind == "fs_err" {
					fsErrs = append(fsErrs, f)
				}
			}
			if len(fsErrs) > 0 {
				cnt := map[int]int{}
				s.FS.Fault = func(op *verifsim.FSOp) error {
					if op.Node != "R" {
						return nil
					}
					for i, f := range fsErrs {
						if f.Op != op.Kind {
							continue
						}
						cnt[i]++
						if cnt[i] == f.At+1 || (f.Arg2%2 == 1 && cnt[i] > f.At) {
							noteFault("fs_err:" + f.Op)
							switch f.Arg % 3 {
							case 0:
								return verifsim.ENOSPC
							case 1:
								return verifsim.EIO
							default:
								return verifsim.EACCES
							}
						}
					}
					return nil
				}
			}
			// every run starts with an empty flush registry (killed receivers of earlier
			// runs in this worker process never unregistered their sidecars)
			globalSidecarFlushRegistry.mu.Lock()
			globalSidecarFlushRegistry.active = nil
			globalSidecarFlushRegistry.mu.Unlock()
			s.OnSignal = func(node string) {
				// the receiver's interrupt handler (snapshotReceiver.watchInterrupt):
				// FlushAllFlushers(), then os.Exit(1). The registry is walked in path order
				// here (the product ranges over a map keyed by pointers, whose order is not
				// a function of the run); each Sidecar.Flush is the real one.
				ep.signalled = true
				verifsim.Go(node+">sigint", func() {
					globalSidecarFlushRegistry.mu.Lock()
					var list []*Sidecar
					for sc := range globalSidecarFlushRegistry.active {
						list = append(list, sc)
					}
					globalSidecarFlushRegistry.mu.Unlock()
					sort.Slice(list, func(i, j int) bool { return list[i].Path < list[j].Path })
					for _, sc := range list {
						_ = sc.Flush()
					}
					verifsim.Exit(1)
				})
			}
			s.OnCrash = func(node string) {
				ep.crashFired = true
				if s.Crash != nil {
					ep.crashSite = s.Crash.Site
				}
				if ep.faultStep == 0 {
					ep.faultStep = s.Steps
					ep.faultTime = time.Since(start)
				}
				// the dead process' sockets go silent
				if node == "R" {
					for _, c := range rN {
						c.KillLocal()
					}
				} else {
					for _, c := range sN {
						c.KillLocal()
					}
				}
				if cfg.onCrash != nil {
					cfg.onCrash(node, ep)
				}
			}

			// the sender's read pool: created here under a name of node S so that its
			// workers belong to the sender process
			verifsim.SetName("S>pool")
			globalReadPoolOnce.Do(func() {})
			pool := newReadPool(2)
			globalReadPool = pool
			verifsim.SetName("main")

			sOpts := Options{ChunkSize: sp.Chunk, ParallelFiles: sp.Streams, Resume: sp.ResumeS, HashAlg: sp.Hash, ResolveFilePath: resolver, StripeMax: nconns,
				SmallThreshold: sp.SmallThr, MediumThreshold: sp.MediumThr, SmallSlotFrac: sp.SmallFrac, AgingAfter: time.Duration(sp.AgingMs) * time.Millisecond, ResumeVerifyTail: sp.Tail}
			rOpts := Options{Resume: sp.ResumeR, NoRootDir: sp.NoRoot, HashAlg: sp.Hash, ParallelFiles: sp.RecvStreams}
			if len(sp.ChunkVary) > 0 {
				// runtime parameters: the chunk size is read again at every file start
				var pmu sync.Mutex
				calls := 0
				sOpts.ParamSource = func() RuntimeParams {
					pmu.Lock()
					defer pmu.Unlock()
					cs := sp.ChunkVary[calls%len(sp.ChunkVary)]
					calls++
					return RuntimeParams{ChunkSize: cs, ParallelFiles: sp.Streams}
				}
			}
			if sp.Delta {
				var sink atomic.Int64
				sOpts.ProgressDeltaFn = func(string, int64) { sink.Add(1) }
				rOpts.ProgressDeltaFn = func(string, int64) { sink.Add(1) }
				sOpts.ProgressFn = func(string, int64, int64) {}
				rOpts.ProgressFn = func(string, int64, int64) {}
			}
			verifsim.Go("S", func() {
				defer done.Add(1)
				defer func() {
					if r := recover(); r != nil {
						mu.Lock()
						ep.nodePanic = fmt.Sprintf("sender: %v", r)
						mu.Unlock()
					}
				}()
				err := SendManifestMultiStream(ctxS, sConn, rootPath, m, sOpts)
				mu.Lock()
				if !frozen {
					ep.sendErr, ep.sendRet, ep.sendAt = err, true, time.Since(start)
				}
				mu.Unlock()
				// app shell: deferred transferConn.Close() / multi.Close() -> CloseWithError(0, "")
				_ = sConn.Close()
			})
			verifsim.Go("R", func() {
				defer done.Add(1)
				defer func() {
					if r := recover(); r != nil {
						mu.Lock()
						ep.nodePanic = fmt.Sprintf("receiver: %v", r)
						mu.Unlock()
					}
				}()
				_, err := RecvManifestMultiStream(ctxR, rConn, cfg.out, rOpts)
				mu.Lock()
				if !frozen {
					ep.recvErr, ep.recvRet, ep.recvAt = err, true, time.Since(start)
				}
				mu.Unlock()
				// app shell: os.Exit right after the engine returns; nothing is closed
				for _, c := range rN {
					c.KillLocal()
				}
			})
			stop := func() bool {
				n := int(done.Load())
				if s.IsDead("S") {
					n++
				}
				if s.IsDead("R") {
					n++
				}
				return n >= 2
			}
			idle := time.Duration(0)
			if cfg.faultFree {
				idle = 120 * time.Second
			}
			ep.outcome = s.Run(stop, start.Add(16*time.Minute), idle)
			ep.blocked = s.Waiting()
			mu.Lock()
			frozen = true
			mu.Unlock()
			ep.deliveries = net.Deliveries
			ep.windowBlk = net.WindowBlk
			ep.crashSeen = s.CrashSeen
			// The episode is over: both processes are gone (the receiver's shell exits
			// right after the engine returns). Whatever goroutines they left behind run
			// unscheduled during the drain below; their file operations must not reach
			// the disk any more, or the state a later run of the history starts from
			// would depend on real-time scheduling.
			s.Kill("R")
			s.Kill("S")
			s.Stop()
			verifsim.Watch(nil)
			cancelS()
			cancelR()
			net.Shutdown()
			for i := 0; i < 100 && done.Load() < 2; i++ {
				time.Sleep(10 * time.Second)
			}
			if pool != nil {
				close(pool.jobs)
			}
			time.Sleep(time.Second)
			ep.fsCounts = s.FS.Counts
			ep.delayed = s.FS.Delayed
		})
	}()
	verifsim.S = nil
	if s != nil {
		ep.steps, ep.hash, ep.sim, ep.qstates, ep.log, ep.stalls = s.Steps, s.LogHash, s.Since(), len(s.QStates), s.Log, s.Stalls
	}
	ep.sw = decodeSenderControl(ep.wire.streams[ep.sCtlKey])
	ep.rw = decodeRecvControl(ep.wire.streams[ep.rCtlKey])
	var keys []string
	for k := range ep.wire.streams {
		keys = append(keys, k)
	}
	sort.Strings(keys)
	for _, k := range keys {
		ws := ep.wire.streams[k]
		if k == ep.sCtlKey || k == ep.rCtlKey || !strings.HasPrefix(k, "c") {
			continue
		}
		if senderSide(k, sp.SenderCli) {
			ep.frames = append(ep.frames, decodeDataFrames(ws, k)...)
		}
	}
	return
}

func senderSide(streamKey string, senderCli bool) bool {
	// "c0.C/4": written by the client end
	i := strings.IndexByte(streamKey, '/')
	if i < 2 {
		return false
	}
	isC := streamKey[i-1] == 'C'
	return isC == senderCli
}

func closeAction(d *verifsim.Delivery, side []*verifsim.NConn) verifsim.Action {
	for _, c := range side {
		if c == d.From {
			return verifsim.ActCloseByWriter
		}
	}
	return verifsim.ActCloseByReader
}

// ---------- spec generation ----------

var nameClasses = []string{"plain", "plain", "plain", "space", "unicode", "dot", "dotdot", "digit", "long", "backslash", "plain", "plain", "plain", "space", "unicode", "dot", "dotdot", "digit", "long", "backslash", "latin1", "dotlead", "dotlead"}

func genName(r *verifsim.SplitMix, i int) string {
	switch nameClasses[r.Intn(len(nameClasses))] {
	case "space":
		return fmt.Sprintf("my file %d.txt", i)
	case "unicode":
		return fmt.Sprintf("données-日本-%d.bin", i)
	case "dot":
		return fmt.Sprintf(".hidden%d", i)
	case "dotdot":
		return fmt.Sprintf("a..b%d", i)
	case "dotlead":
		// begins with two dots without being the parent reference
		return fmt.Sprintf([]string{"..a%d.txt", "...%d", "..cache%d", "....%d"}[r.Intn(4)], i)
	case "digit":
		return fmt.Sprintf("%d_x", i+1)
	case "long":
		return fmt.Sprintf("L%d_%s", i, strings.Repeat("x", 100+r.Intn(120)))
	case "backslash":
		return fmt.Sprintf("back\\slash%d", i)
	case "latin1":
		// not valid UTF-8: legal on the file systems the tool runs on
		// (spelled %E9 in the spec so that the replay file stays valid JSON; fsName turns it into the byte)
		return fmt.Sprintf("caf%%E9-%d.txt", i)
	}
	return fmt.Sprintf("f%d.bin", i)
}

func genTree(r *verifsim.SplitMix, sp *txSpec, maxFiles int, plainNames bool) {
	nf := r.Intn(maxFiles + 1)
	c := int(sp.Chunk)
	sizes := []int{0, 1, c - 1, c, c + 1, 2 * c, 2*c + 1, 3 * c, 5*c - 1, 8 * c}
	dirs := []string{"", "", "sub", "sub/deep", "other dir", "sub/deep/er/still", "...", "sub/..cfg"}
	seen := map[string]bool{}
	for i := 0; i < nf; i++ {
		n := sizes[r.Intn(len(sizes))]
		if r.Chance(1, 4) {
			n = r.Intn(8*c + 1)
		}
		if n < 0 {
			n = 0
		}
		if n > 96*1024 {
			n = 96 * 1024
		}
		name := fmt.Sprintf("f%d.bin", i)
		if !plainNames {
			name = genName(r, i)
			if strings.Contains(name, "%E9") && !(sp.Prop == "C01" || sp.Prop == "C03" || sp.Prop == "C17") {
				name = fmt.Sprintf("f%d.bin", i)
			}
		}
		d := dirs[r.Intn(len(dirs))]
		p := name
		if d != "" {
			p = d + "/" + name
		}
		if sp.Scan == "paths" && d == "" && false {
			p = "top/" + name
		}
		if seen[p] {
			continue
		}
		seen[p] = true
		sp.Files = append(sp.Files, txFile{P: p, N: n})
	}
	if len(sp.Files) > 0 && !plainNames && r.Chance(1, 8) {
		// a symbolic link to a file of the tree
		t := sp.Files[r.Intn(len(sp.Files))]
		p := []string{"", "sub/", "linkdir/"}[r.Intn(3)] + fmt.Sprintf("lnk%d", r.Intn(9))
		if !seen[p] && t.Link == "" {
			seen[p] = true
			sp.Files = append(sp.Files, txFile{P: p, N: t.N, Link: t.P})
		}
	}
	if r.Chance(1, 3) {
		sp.Dirs = append(sp.Dirs, "emptydir")
	}
	if r.Chance(1, 6) {
		sp.Dirs = append(sp.Dirs, "sub/empty/nested")
	}
	if !plainNames && r.Chance(1, 15) && (sp.Prop == "C01" || sp.Prop == "C03" || sp.Prop == "C17") {
		// an empty directory whose name is not valid UTF-8 (only where the listed finding
		// about such names is the subject: it would make every other oracle fail the same way)
		sp.Dirs = append(sp.Dirs, "d%E9")
	}
	if len(sp.Files) > 0 && r.Chance(1, 3) {
		// an empty directory whose path is a string prefix of a sibling entry ("logs" next to "logs.txt", "run1" next to "run10")
		p := sp.Files[r.Intn(len(sp.Files))].P
		cut := len(p) - 1 - r.Intn(min(4, len(p)-1))
		if i := strings.LastIndexByte(p, '.'); i > 0 && r.Chance(1, 2) {
			cut = i
		}
		d := p[:cut]
		last := d[strings.LastIndexByte(d, '/')+1:]
		if d != "" && !strings.HasSuffix(d, "/") && !seen[d] && !strings.HasSuffix(d, " ") && last != "." && last != ".." {
			ok := true
			for _, f := range sp.Files {
				if f.P == d || strings.HasPrefix(f.P, d+"/") {
					ok = false
				}
			}
			if ok {
				sp.Dirs = append(sp.Dirs, d)
			}
		}
	}
	sort.Slice(sp.Files, func(i, j int) bool { return sp.Files[i].P < sp.Files[j].P })
}

func genStrategy(r *verifsim.SplitMix, horizon int) verifsim.Strategy {
	kinds := []string{"rand", "rand", "weighted", "weighted", "pct", "fifo"}
	st := verifsim.Strategy{Kind: kinds[r.Intn(len(kinds))], Seed: r.Next(), D: r.Intn(5), Horizon: horizon, MaxW: 2 + r.Intn(12)}
	if r.Chance(2, 5) {
		st.StallPer = 5 + r.Intn(120)
	}
	if r.Chance(1, 6) {
		starve := []string{"R", "S", "~dlv", "R>RecvManifestMultiStream/go#3", "S>SendManifestMultiStream/go#1"}
		st.Starve = starve[r.Intn(len(starve))]
	}
	return st
}

func genBase(r *verifsim.SplitMix, prop string, maxFiles int) txSpec {
	sp := txSpec{Prop: prop, Seed: r.Next(), ContentSeed: r.Next()}
	chunks := []uint32{1, 7, 64, 512, 1000, 1024, 4096, 16384}
	sp.Chunk = chunks[r.Intn(len(chunks))]
	if sp.Chunk < 64 {
		maxFiles = min(maxFiles, 3)
	}
	sp.Streams = 1 + r.Intn(8)
	if r.Chance(1, 2) {
		sp.Streams = 1 + r.Intn(3)
	}
	sp.Conns = 1
	if r.Chance(1, 4) {
		sp.Conns = 2 + r.Intn(3)
	}
	sp.ResumeS = r.Chance(4, 5)
	sp.ResumeR = r.Chance(1, 2)
	sp.Hash = []string{"crc32c", "crc32c", "xxhash64", "none", ""}[r.Intn(5)]
	sp.NoRoot = r.Chance(1, 2)
	sp.Scan = []string{"root", "paths"}[r.Intn(2)]
	sp.SenderCli = r.Chance(1, 2)
	sp.SegMax = []int{1, 13, 200, 1200, 1200, 65536}[r.Intn(6)]
	if r.Chance(1, 4) {
		sp.Window = []int{1, 64, 1024, 4096}[r.Intn(4)]
	}
	sp.Delta = r.Chance(1, 2)
	if r.Chance(1, 3) {
		sp.RecvStreams = 1 + r.Intn(8)
	}
	if r.Chance(1, 2) {
		// size classes of the sender's file scheduler brought down to the generated sizes
		sp.SmallThr = []int64{1, 64, 1000, 5000}[r.Intn(4)]
		sp.MediumThr = sp.SmallThr * []int64{1, 4, 50}[r.Intn(3)]
		sp.SmallFrac = []float64{0, 0.25, 0.5, 1}[r.Intn(4)]
		sp.AgingMs = []int{0, 1, 1000}[r.Intn(3)]
	}
	sp.Tail = []uint32{0, 0, 1, 2}[r.Intn(4)]
	genTree(r, &sp, maxFiles, false)
	if sp.Chunk <= 7 {
		for i := range sp.Files {
			if sp.Files[i].N > 40 {
				sp.Files[i].N = sp.Files[i].N % 41
			}
		}
	}
	if sp.SegMax < 200 || (sp.Window > 0 && sp.Window < 1024) {
		// byte-sized segments / tiny windows: keep the byte count small so the run
		// explores orders rather than grinding through deliveries
		for i := range sp.Files {
			if sp.Files[i].N > 1500 {
				sp.Files[i].N = 1 + sp.Files[i].N%1500
			}
		}
	}
	total := 0
	for _, f := range sp.Files {
		total += f.N
	}
	sp.Strat = genStrategy(r, 400+total/50)
	return sp
}

func (sp *txSpec) outBase(out string, m manifest.Manifest) string {
	if sp.NoRoot {
		return out
	}
	return filepath.Join(out, m.Root)
}

// ---------- harness for the fault-free properties (C01, C03, C17a) ----------

type txHarness struct{ prop string }

func (h txHarness) Gen(r *verifsim.SplitMix, tier string, idx int) any {
	sp := genBase(r, h.prop, 6)
	if r.Chance(1, 5) && len(sp.Files) > 0 {
		// a healthy resumed run from a prior partial transfer (state written directly,
		// every bitmap shape, nothing damaged)
		sp.ResumeS, sp.ResumeR = true, true
		for i := 0; i < 1+r.Intn(2); i++ {
			sp.Damage = append(sp.Damage, txDamage{Kind: "synthetic", File: r.Intn(8), Arg: r.Intn(1 << 20)})
		}
	} else if r.Chance(1, 6) && len(sp.Files) > 0 {
		// the output directory holds older copies of some files (an earlier fetch of an
		// earlier version of the tree), without resume metadata
		for i := 0; i < 1+r.Intn(3); i++ {
			sp.Damage = append(sp.Damage, txDamage{Kind: "old_output", File: r.Intn(8), Arg: r.Intn(1 << 20)})
		}
	} else if h.prop == "C17" && r.Chance(2, 5) && len(sp.Files) > 0 {
		// a resumed transfer whose verification fails: a prior state written directly
		// (bitmap shapes) with the highest marked chunk torn, so that the sender has to
		// re-send exactly that chunk
		sp.ResumeS, sp.ResumeR = true, true
		if sp.Hash == "none" {
			sp.Hash = "crc32c"
		}
		sp.Conns = 1
		for i := 0; i < 1+r.Intn(2); i++ {
			f := r.Intn(8)
			sp.Damage = append(sp.Damage, txDamage{Kind: "synthetic", File: f, Arg: r.Intn(1 << 20)}, txDamage{Kind: "tear_highest", File: f, Arg: r.Intn(1 << 20)})
		}
		if r.Chance(1, 2) {
			// the receiver's report is late: the sender's grace period ends, it starts without
			// the report, and the report arrives while the file is under way (the receiver's
			// slow chunk writes make the transfer span simulated time)
			sp.SlowHashMs = []int{320, 400, 700, 1200}[r.Intn(4)]
			sp.SlowWriteMs = []int{0, 15, 40, 120}[r.Intn(4)]
			if r.Chance(3, 4) {
				// ... with something left to hand out when it arrives: the files have
				// 6-35 chunks, the receiver's disk is slow and the stream window holds about
				// two chunks, so that the sender is paced by the receiver
				if sp.Chunk > 1024 {
					sp.Chunk = []uint32{64, 512, 1000}[r.Intn(3)]
				}
				if sp.Chunk >= 64 {
					for fi := range sp.Files {
						sp.Files[fi].N = int(sp.Chunk)*(6+r.Intn(30)) + r.Intn(int(sp.Chunk))
					}
					sp.SlowWriteMs = []int{15, 40, 120}[r.Intn(3)]
					sp.Window = int(sp.Chunk)*(1+r.Intn(3)) + 64
					sp.Streams = 1 + r.Intn(3)
				}
			}
		}
	}
	if len(sp.Damage) == 0 && sp.Chunk >= 64 && r.Chance(1, 8) {
		// the chunk size changes from file to file (the engine asks its ParamSource at every file start)
		pool := []uint32{64, 512, 1000, 1024, 4096, 16384}
		for i := 0; i < 2+r.Intn(2); i++ {
			sp.ChunkVary = append(sp.ChunkVary, pool[r.Intn(len(pool))])
		}
	}
	return sp
}

func (h txHarness) Decode(raw json.RawMessage) (any, error) {
	var sp txSpec
	err := json.Unmarshal(raw, &sp)
	return sp, err
}

func cloneSpec(sp txSpec) txSpec {
	c := sp
	c.Files = append([]txFile(nil), sp.Files...)
	c.Dirs = append([]string(nil), sp.Dirs...)
	c.Faults = append([]txFault(nil), sp.Faults...)
	c.Chain = append([]txLink(nil), sp.Chain...)
	c.Damage = append([]txDamage(nil), sp.Damage...)
	return c
}

func (h txHarness) Shrink(spec any) []any { return shrinkTx(spec.(txSpec)) }

func shrinkTx(sp txSpec) []any {
	var out []any
	add := func(c txSpec) { out = append(out, c) }
	for i := range sp.Chain {
		c := cloneSpec(sp)
		c.Chain = append(c.Chain[:i], c.Chain[i+1:]...)
		add(c)
	}
	for i := range sp.Faults {
		c := cloneSpec(sp)
		c.Faults = append(c.Faults[:i], c.Faults[i+1:]...)
		add(c)
	}
	for i := range sp.Damage {
		c := cloneSpec(sp)
		c.Damage = append(c.Damage[:i], c.Damage[i+1:]...)
		add(c)
	}
	for i := range sp.Files {
		c := cloneSpec(sp)
		c.Files = append(c.Files[:i], c.Files[i+1:]...)
		add(c)
	}
	for i := range sp.Dirs {
		c := cloneSpec(sp)
		c.Dirs = append(c.Dirs[:i], c.Dirs[i+1:]...)
		add(c)
	}
	if sp.Conns > 1 {
		c := cloneSpec(sp)
		c.Conns = 1
		add(c)
	}
	if sp.Streams > 1 {
		c := cloneSpec(sp)
		c.Streams = 1
		add(c)
		c = cloneSpec(sp)
		c.Streams = sp.Streams - 1
		add(c)
	}
	for i, f := range sp.Files {
		if f.N > 0 {
			c := cloneSpec(sp)
			c.Files[i].N = f.N / 2
			add(c)
			if int(sp.Chunk) < f.N {
				c = cloneSpec(sp)
				c.Files[i].N = int(sp.Chunk)
				add(c)
			}
		}
		if strings.Contains(f.P, "/") || !strings.HasPrefix(f.P, "f") {
			c := cloneSpec(sp)
			c.Files[i].P = fmt.Sprintf("f%d.bin", i)
			dup := false
			for j, g := range c.Files {
				if j != i && g.P == c.Files[i].P {
					dup = true
				}
			}
			if !dup {
				sort.Slice(c.Files, func(a, b int) bool { return c.Files[a].P < c.Files[b].P })
				add(c)
			}
		}
	}
	if sp.Window != 0 {
		c := cloneSpec(sp)
		c.Window = 0
		add(c)
	}
	if sp.SegMax != 65536 {
		c := cloneSpec(sp)
		c.SegMax = 65536
		add(c)
	}
	if sp.Delta {
		c := cloneSpec(sp)
		c.Delta = false
		add(c)
	}
	if sp.RecvStreams != 0 {
		c := cloneSpec(sp)
		c.RecvStreams = 0
		add(c)
	}
	if sp.ResumeR {
		c := cloneSpec(sp)
		c.ResumeR = false
		add(c)
	}
	if sp.ResumeS && !sp.ResumeR {
		c := cloneSpec(sp)
		c.ResumeS = false
		add(c)
	}
	if sp.Scan != "root" {
		c := cloneSpec(sp)
		c.Scan = "root"
		add(c)
	}
	if !sp.NoRoot {
		c := cloneSpec(sp)
		c.NoRoot = true
		add(c)
	}
	if sp.Strat.StallPer > 0 {
		c := cloneSpec(sp)
		c.Strat.StallPer = 0
		add(c)
	}
	if sp.Strat.Starve != "" {
		c := cloneSpec(sp)
		c.Strat.Starve = ""
		add(c)
	}
	if sp.Strat.Kind != "fifo" {
		c := cloneSpec(sp)
		c.Strat.Kind = "fifo"
		add(c)
	}
	return out
}

func scratchDir() string {
	d := os.Getenv("VERIF_SCRATCH")
	if d == "" {
		d = os.TempDir()
	}
	return d
}

var runCounter int

func newRunDirs() (string, string, func()) {
	runCounter++
	base := filepath.Join(scratchDir(), fmt.Sprintf("run%07d", runCounter))
	os.RemoveAll(base)
	src := filepath.Join(base, "src", "tree")
	out := filepath.Join(base, "sandbox", "out")
	os.MkdirAll(src, 0o755)
	os.MkdirAll(out, 0o755)
	return src, out, func() { os.RemoveAll(base) }
}

func errStr(err error) string {
	if err == nil {
		return "<nil>"
	}
	return err.Error()
}

// hangSignature reduces the blocked-goroutine list of a hung run to the sites
// where the two engines' main and worker goroutines wait.
func hangSignature(ep *epResult) string {
	rMain, sMain := "returned", "returned"
	extra := map[string]bool{}
	for _, b := range ep.blocked {
		i := strings.LastIndexByte(b, '@')
		if i < 0 {
			continue
		}
		name, site := b[:i], b[i+1:]
		switch name {
		case "R":
			rMain = site
		case "S":
			sMain = site
		}
		if verifsim.NodeOf(name) == "R" && name != "R" && strings.HasPrefix(site, "fileWaitRegistry.wait") {
			extra["R-goroutine-in-file-wait"] = true
		}
	}
	sig := "R@" + rMain + ";S@" + sMain
	for k := range extra {
		sig += ";" + k
	}
	return sig
}

func classifyErr(err error) string {
	if err == nil {
		return "nil"
	}
	msg := err.Error()
	for _, pat := range []string{"invalid relative path", "relative path too long", "manifest mismatch", "duplicate file begin", "chunk for unknown file", "resume request for unknown file", "file end for unknown file", "Application error", "timeout: no recent network activity", "context canceled", "deadline exceeded", "crc32 mismatch", "failed to load sidecar", "short read", "failed to open", "receiver reported failure", "unexpected control message", "EOF", "closed pipe"} {
		if strings.Contains(msg, pat) {
			return pat
		}
	}
	if len(msg) > 40 {
		msg = msg[:40]
	}
	return msg
}

func (h txHarness) Run(spec any) (res verifsim.RunResult) {
	sp := spec.(txSpec)
	res.Counters = map[string]int64{}
	src, out, cleanup := newRunDirs()
	defer cleanup()
	if err := writeTree(src, sp.ContentSeed, sp.Files, sp.Dirs); err != nil {
		// a tree the file system refuses (e.g. over-long name) is outside the property
		res.Skipped = true
		res.Counters["tree_unwritable"]++
		return
	}
	if len(sp.Damage) > 0 {
		// prior state for a resumed run (C17's re-send clause)
		if m0, _, _, err := scanFor(&sp, src); err == nil {
			os.MkdirAll(sp.outBase(out, m0), 0o755)
			syntheticSrc = src
			tornChunks = nil
			for _, d := range sp.Damage {
				if k := applyDamage(&sp, out, m0, d); k != "" {
					res.Counters["prior_state:"+k]++
				}
			}
		}
	}
	ep := runEpisode(epCfg{sp: &sp, seed: sp.Seed, src: src, out: out, faultFree: true})
	fillRes(&res, ep)
	res.Sample = map[string]any{"spec": sp, "outcome": ep.outcome.String(), "sender": errStr(ep.sendErr), "receiver": errStr(ep.recvErr), "steps": ep.steps, "simulated": ep.sim.String()}
	v := func(class, sig, detail string) {
		res.Violations = append(res.Violations, &verifsim.Violation{Class: class, Signature: sig, Detail: detail, LogHash: verifsim.HashStr(ep.hash), Steps: ep.steps, Trace: ep.log})
	}
	if ep.bubblePanic != "" && !strings.Contains(ep.bubblePanic, "deadlock: main bubble goroutine has exited") {
		v("harness-panic", firstLine(ep.bubblePanic), ep.bubblePanic)
		return
	}
	bothOK := ep.sendRet && ep.recvRet && ep.sendErr == nil && ep.recvErr == nil
	switch h.prop {
	case "C03":
		switch {
		case ep.nodePanic != "":
			v("panic", firstLine(ep.nodePanic), ep.nodePanic)
		case ep.outcome != verifsim.Finished:
			v("hang", hangSignature(ep), fmt.Sprintf("healthy peers, no fault: after %v simulated (%s) sender returned=%v (%s) receiver returned=%v (%s); waiting at %v", ep.sim, ep.outcome, ep.sendRet, errStr(ep.sendErr), ep.recvRet, errStr(ep.recvErr), ep.blocked))
		case !bothOK:
			zf := ""
			if len(sp.Files) == 0 {
				zf = ";no-files-in-manifest"
			}
			for _, f := range sp.Files {
				if !utf8.ValidString(fsName(f.P)) && classifyErr(ep.recvErr) == "manifest mismatch" {
					zf = ";file-name-not-utf8"
				}
			}
			sig := "send=" + classifyErr(ep.sendErr) + ";recv=" + classifyErr(ep.recvErr) + zf
			if zf == ";file-name-not-utf8" {
				sig = "recv=manifest mismatch" + zf // (what the sender then reports depends on who notices first)
			}
			v("error", sig, fmt.Sprintf("healthy peers, no fault: sender=%s receiver=%s", errStr(ep.sendErr), errStr(ep.recvErr)))
		}
	case "C01":
		if !bothOK {
			res.Skipped = true
			break
		}
		base := sp.outBase(out, ep.manifest)
		prefix := ""
		if !sp.NoRoot {
			prefix = ep.manifest.Root
		}
		want := expectedDigest(prefix, sp.ContentSeed, sp.Files, sp.Dirs)
		got, err := digestTree(out, out, base)
		if err != nil {
			v("harness-panic", "digest", err.Error())
			break
		}
		if d := diffDigests(want, got); d != "" {
			sig := treeDiffSig(want, got)
			for _, dn := range sp.Dirs {
				if !utf8.ValidString(fsName(dn)) && sig == "extra-D+missing-D" {
					sig = "directory-name-not-utf8"
				}
			}
			v("tree-differs", sig, "both sides reported success but the output tree differs: "+d)
		}
	case "C17":
		if ep.outcome != verifsim.Finished {
			res.Skipped = true
			break
		}
		resendsSeen, verificationsFailed, reportsMidFile = 0, 0, 0
		for _, e := range checkDispatch(&sp, ep, bothOK) {
			v("dispatch", e[0], e[1])
		}
		res.Counters["resends_observed"] += int64(resendsSeen)
		res.Counters["verification_failures_expected"] += int64(verificationsFailed)
		res.Counters["reports_written_while_the_file_was_under_way"] += int64(reportsMidFile)
	}
	return
}

func treeDiffSig(want, got []string) string {
	w := map[string]bool{}
	for _, x := range want {
		w[x] = true
	}
	g := map[string]bool{}
	for _, x := range got {
		g[x] = true
	}
	kinds := map[string]bool{}
	for _, x := range want {
		if !g[x] {
			kinds["missing-"+x[:1]] = true
		}
	}
	for _, x := range got {
		if !w[x] {
			kinds["extra-"+x[:1]] = true
		}
	}
	var ks []string
	for k := range kinds {
		ks = append(ks, k)
	}
	sort.Strings(ks)
	return strings.Join(ks, "+")
}

func fillRes(res *verifsim.RunResult, ep *epResult) {
	res.LogHash ^= ep.hash
	res.Trace = append(res.Trace, ep.log...)
	res.Steps += ep.steps
	res.SimTime += ep.sim
	res.QStates += ep.qstates
	res.Nontrivial = res.Nontrivial || ep.steps > 50
	res.Counters["deliveries"] += int64(ep.deliveries)
	res.Counters["stalls"] += int64(ep.stalls)
	res.Counters["window_blocked_writes"] += int64(ep.windowBlk)
	for k, n := range ep.faultFired {
		res.Counters["fault_fired:"+k] += int64(n)
	}
	if ep.crashFired {
		res.Counters["crash_fired"]++
	}
	if ep.signalled {
		res.Counters["interrupt_signal_delivered"]++
		if ep.crashFired {
			res.Counters["interrupt_handler_exited_process"]++
		}
	}
	if ep.sendRet && ep.sendErr == nil {
		res.Counters["sender_success"]++
	}
	if ep.recvRet && ep.recvErr == nil {
		res.Counters["receiver_success"]++
	}
	if ep.outcome != verifsim.Finished {
		res.Counters["outcome_"+ep.outcome.String()]++
	}
	var fsTotal int64
	for _, n := range ep.fsCounts {
		fsTotal += int64(n)
	}
	res.Counters["fs_ops"] += fsTotal
	if ep.delayed > 0 {
		res.Counters["slow_disk_operations"] += int64(ep.delayed)
	}
	res.Counters["frames_written"] += int64(len(ep.frames))
	// reach probes: one file's chunks travelling on several data streams; chunk
	// data delivered before the file's FileBegin was written/handled
	perFile := map[uint64]map[string]bool{}
	for _, f := range ep.frames {
		if perFile[f.key] == nil {
			perFile[f.key] = map[string]bool{}
		}
		perFile[f.key][f.stream] = true
	}
	for _, m := range perFile {
		if len(m) >= 2 {
			res.Counters["file_striped_over_streams"]++
		}
		if len(m) >= 3 {
			res.Counters["file_striped_over_3plus_streams"]++
		}
	}
	if len(ep.rw.infos) > 0 {
		res.Counters["resume_infos"] += int64(len(ep.rw.infos))
	}
}

func firstLine(s string) string {
	if i := strings.IndexByte(s, '\n'); i >= 0 {
		return s[:i]
	}
	return s
}

// checkDispatch is the wire-level part of C17 (exactly-once begin / chunk / end).
func checkDispatch(sp *txSpec, ep *epResult, success bool) [][2]string {
	var out [][2]string
	bad := func(sig, detail string) { out = append(out, [2]string{sig, detail}) }
	if ep.sw.err != "" {
		bad("undecodable-sender-control", ep.sw.err)
		return out
	}
	keyOf := map[uint64]manifest.FileItem{}
	for _, it := range ep.manifest.Items {
		if !it.IsDir {
			keyOf[fileKeyForItem(it)] = it
		}
	}
	begins := map[uint64]int{}
	chunkOf := map[uint64]uint32{}
	for _, b := range ep.sw.begins {
		begins[b.StreamID]++
		chunkOf[b.StreamID] = b.ChunkSize
		if _, ok := keyOf[b.StreamID]; !ok {
			bad("begin-for-unknown-file", fmt.Sprintf("FileBegin for key %d (%s) not in manifest", b.StreamID, b.RelPath))
		}
	}
	for k, n := range begins {
		if n > 1 {
			bad("file-begun-twice", fmt.Sprintf("%s begun %d times", keyOf[k].RelPath, n))
		}
	}
	type ck struct {
		key uint64
		idx uint32
	}
	count := map[ck]int{}
	lastChunkEnd := map[uint64]int{}
	for _, f := range ep.frames {
		if f.headerOnly {
			continue
		}
		count[ck{f.key, f.idx}]++
		if f.stepEnd > lastChunkEnd[f.key] {
			lastChunkEnd[f.key] = f.stepEnd
		}
		it, ok := keyOf[f.key]
		if !ok {
			bad("chunk-for-unknown-file", fmt.Sprintf("frame key %d", f.key))
			continue
		}
		cs := chunkOf[f.key]
		if cs == 0 {
			bad("chunk-before-begin", fmt.Sprintf("%s chunk %d written without FileBegin", it.RelPath, f.idx))
			continue
		}
		if want := chunkSizeForIndexRef(it.Size, cs, f.idx); want != f.n {
			bad("chunk-length", fmt.Sprintf("%s chunk %d has length %d, geometry says %d", it.RelPath, f.idx, f.n, want))
		}
	}
	// resend allowance: one chunk per file, the one named by a verification the receiver advertised
	verified := map[uint64]uint32{}
	hasInfo := map[uint64]bool{}
	advertised := map[uint64]*Bitmap{}
	for _, in := range ep.rw.infos {
		if !hasInfo[in.StreamID] {
			hasInfo[in.StreamID] = true
			verified[in.StreamID] = in.LastVerifiedChunk
			if len(in.Bitmap) > 0 && in.TotalChunks > 0 {
				if bm, err := BitmapFromBytes(in.Bitmap, int(in.TotalChunks)); err == nil {
					advertised[in.StreamID] = bm
				}
			}
		}
	}
	dupPerFile := map[uint64]int{}
	for c, n := range count {
		if n > 1 {
			it := keyOf[c.key]
			if n == 2 && hasInfo[c.key] && verified[c.key] == c.idx {
				dupPerFile[c.key]++
				resendsSeen++
				continue
			}
			bad("chunk-sent-twice", fmt.Sprintf("%s chunk %d written %d times (verification point %v)", it.RelPath, c.idx, n, verified[c.key]))
		}
	}
	ends := map[uint64]int{}
	for _, e := range ep.sw.ends {
		ends[e.key]++
		if e.step < lastChunkEnd[e.key] {
			bad("end-before-last-chunk", fmt.Sprintf("%s: FileEnd written at step %d, a chunk write finished at step %d", keyOf[e.key].RelPath, e.step, lastChunkEnd[e.key]))
		}
		if begins[e.key] == 0 {
			bad("end-without-begin", fmt.Sprintf("FileEnd for key %d", e.key))
		}
	}
	for k, n := range ends {
		if n > 1 {
			bad("file-ended-twice", fmt.Sprintf("%s: %d FileEnd records", keyOf[k].RelPath, n))
		}
	}
	for _, f := range ep.frames {
		// a chunk written after the FileEnd of its file
		for _, e := range ep.sw.ends {
			if e.key == f.key && !f.headerOnly && f.stepStart > e.step {
				bad("chunk-after-end", fmt.Sprintf("%s chunk %d written at step %d after FileEnd at step %d", keyOf[f.key].RelPath, f.idx, f.stepStart, e.step))
			}
		}
	}
	// a file the sender has ended: every chunk went out or was advertised as present
	// (fault-free runs: nothing else can end a file), whatever the transfer's outcome
	firstChunkStart := map[uint64]int{}
	for _, f := range ep.frames {
		if !f.headerOnly {
			if st, ok := firstChunkStart[f.key]; !ok || f.stepStart < st {
				firstChunkStart[f.key] = f.stepStart
			}
		}
	}
	for _, e := range ep.sw.ends {
		for _, in := range ep.rw.infos {
			if st, ok := firstChunkStart[e.key]; ok && in.StreamID == e.key && in.step > st && in.step < e.step {
				reportsMidFile++
				break
			}
		}
	}
	if !success {
		for k, it := range keyOf {
			if begins[k] != 1 || ends[k] != 1 || chunkOf[k] == 0 {
				continue
			}
			total := chunkTotalRef(it.Size, chunkOf[k])
			for i := uint32(0); i < total; i++ {
				if count[ck{k, i}] == 0 {
					if bm := advertised[k]; bm != nil && bm.Get(int(i)) {
						continue
					}
					bad("needed-chunk-never-sent", fmt.Sprintf("%s chunk %d neither written nor advertised as present, and the file was ended", it.RelPath, i))
					break
				}
			}
		}
	}
	if success {
		for k, it := range keyOf {
			if begins[k] != 1 {
				bad("file-not-begun-once", fmt.Sprintf("%s: %d FileBegin records in a successful transfer", it.RelPath, begins[k]))
				continue
			}
			if ends[k] != 1 {
				bad("file-not-ended-once", fmt.Sprintf("%s: %d FileEnd records in a successful transfer", it.RelPath, ends[k]))
			}
			total := chunkTotalRef(it.Size, chunkOf[k])
			for i := uint32(0); i < total; i++ {
				if count[ck{k, i}] == 0 {
					if bm := advertised[k]; bm != nil && bm.Get(int(i)) {
						continue
					}
					bad("needed-chunk-never-sent", fmt.Sprintf("%s chunk %d neither written nor advertised as present", it.RelPath, i))
					break
				}
			}
		}
		if !ep.sw.endSeen {
			bad("no-end-record", "successful transfer without End record")
		}
		// the chunk that failed verification goes out (again): the harness tore it on
		// disk itself, the receiver named it as its verification point and advertised
		// it as present, and a hash algorithm is in force
		if sp.Hash != "" && sp.Hash != "none" {
			for _, tc := range tornChunks {
				k, idx := tc[0], uint32(tc[1])
				it, ok := keyOf[k]
				if !ok || !hasInfo[k] || verified[k] != idx {
					continue
				}
				if bm := advertised[k]; bm == nil || !bm.Get(int(idx)) {
					continue
				}
				verificationsFailed++
				if count[ck{k, idx}] == 0 {
					bad("failed-chunk-never-resent", fmt.Sprintf("%s: chunk %d is damaged on the receiver's disk and was named as the verification point, but the sender never wrote it and still ended the file", it.RelPath, idx))
				}
			}
		}
	}
	return out
}

// verificationsFailed counts resumed files whose verification point was a chunk the harness had torn (reach probe).
var verificationsFailed int

// reportsMidFile counts files whose resume report was written after the sender's first chunk and before its FileEnd (reach probe).
var reportsMidFile int

// resendsSeen counts verified chunks observed twice on the wire (reach probe).
var resendsSeen int

// independent geometry (not the repo's helpers)
func chunkTotalRef(size int64, cs uint32) uint32 {
	if cs == 0 || size <= 0 {
		return 0
	}
	n := size / int64(cs)
	if size%int64(cs) != 0 {
		n++
	}
	return uint32(n)
}

func chunkSizeForIndexRef(size int64, cs uint32, idx uint32) uint32 {
	off := int64(idx) * int64(cs)
	if off >= size {
		return 0
	}
	if size-off < int64(cs) {
		return uint32(size - off)
	}
	return cs
}

var _ = errors.Is

// flipTarget picks a byte of the delivered segment [off, off+n) of a data
// stream that lies in a chunk payload or in a frame's CRC field.
func flipTarget(ws *wireStream, off int64, n int, arg int) (int, string, bool) {
	if ws == nil {
		return 0, "", false
	}
	type rng struct {
		lo, hi int64
		region string
	}
	var ok []rng
	pos := int64(0)
	for pos+dataChunkHeaderLen <= int64(len(ws.buf)) {
		ln := int64(uint32(ws.buf[pos+12])<<24 | uint32(ws.buf[pos+13])<<16 | uint32(ws.buf[pos+14])<<8 | uint32(ws.buf[pos+15]))
		ok = append(ok, rng{pos + 16, pos + 20, "crc"}, rng{pos + 20, pos + 20 + ln, "payload"})
		pos += dataChunkHeaderLen + ln
	}
	want := "payload"
	if arg%4 == 0 {
		want = "crc"
	}
	var cands []int
	var regs []string
	for i := 0; i < n; i++ {
		a := off + int64(i)
		for _, r := range ok {
			if r.region == want && a >= r.lo && a < r.hi {
				cands = append(cands, i)
				regs = append(regs, r.region)
				break
			}
		}
	}
	if len(cands) == 0 {
		return 0, "", false
	}
	k := arg % len(cands)
	return cands[k], regs[k], true
}
