package transfer

// C04 / C05 / C06: histories of interrupted runs followed by a healthy resumed
// run, with the crash-image oracle (C05) and storage damage (C06).

import (
	"bytes"
	"encoding/binary"
	"encoding/json"
	"fmt"
	"hash/crc32"
	"os"
	"path/filepath"
	"sort"
	"strings"

	"github.com/sheerbytes/sheerbytes/internal/verifsim"
	"github.com/sheerbytes/sheerbytes/pkg/manifest"
)

type resumeHarness struct{ prop string }

func genResumeBase(r *verifsim.SplitMix, prop string) txSpec {
	sp := txSpec{Prop: prop, Seed: r.Next(), ContentSeed: r.Next()}
	chunks := []uint32{7, 64, 512, 1024, 4096}
	sp.Chunk = chunks[r.Intn(len(chunks))]
	sp.Streams = 1 + r.Intn(4)
	sp.Conns = 1
	if r.Chance(1, 6) {
		sp.Conns = 2
	}
	sp.ResumeS, sp.ResumeR = true, true
	sp.Tail = []uint32{0, 1, 1, 2}[r.Intn(4)] // the CLI uses 1
	sp.Hash = []string{"crc32c", "crc32c", "xxhash64", "none"}[r.Intn(4)]
	sp.NoRoot = r.Chance(2, 3)
	sp.Scan = []string{"root", "paths"}[r.Intn(2)]
	sp.SenderCli = r.Chance(1, 2)
	sp.SegMax = []int{13, 200, 1200, 65536}[r.Intn(4)]
	sp.Delta = r.Chance(1, 2)
	nf := 1 + r.Intn(4)
	c := int(sp.Chunk)
	for i := 0; i < nf; i++ {
		nchunks := 1 + r.Intn(8)
		n := nchunks*c - r.Intn(c)
		if r.Chance(1, 10) {
			n = 0
		}
		d := []string{"", "", "sub/"}[r.Intn(3)]
		sp.Files = append(sp.Files, txFile{P: fmt.Sprintf("%sf%d.bin", d, i), N: n})
	}
	if r.Chance(1, 6) {
		// one file of many chunks (its bitmap spans several bytes, and a machine word): small
		// chunks keep it light
		sp.Chunk = []uint32{7, 64}[r.Intn(2)]
		c = int(sp.Chunk)
		for i := range sp.Files {
			if sp.Files[i].N > 8*c {
				sp.Files[i].N = 8 * c
			}
		}
		sp.Files[0].N = (57+r.Intn(150))*c - r.Intn(c)
	}
	sort.Slice(sp.Files, func(i, j int) bool { return sp.Files[i].P < sp.Files[j].P })
	total := 0
	for _, f := range sp.Files {
		total += f.N
	}
	sp.Strat = genStrategy(r, 300+total/40)
	// bias: let the 1 s flusher tick fall between the steps of the data readers
	if r.Chance(1, 2) {
		sp.Strat.StallPer = 100 + r.Intn(400)
		sp.Strat.StallBudgetMs = 60000
	}
	return sp
}

func genLink(r *verifsim.SplitMix) txLink {
	l := txLink{Seed: r.Next()}
	switch x := r.Intn(100); {
	case x < 55:
		l.Crash = &verifsim.CrashPlan{Node: "R", Kind: "fs", N: -1 - r.Intn(1000)}
		if r.Chance(2, 5) {
			l.Crash.Torn = 1 + r.Intn(1000)
		}
	case x < 65:
		l.Crash = &verifsim.CrashPlan{Node: "R", Kind: "any", N: -1 - r.Intn(1000)}
		if r.Chance(1, 2) {
			// Ctrl-C: the interrupt handler flushes every sidecar and exits, while the
			// ticker and the readers keep running until the exit
			l.Crash.Signal = true
		}
	case x < 78:
		l.Crash = &verifsim.CrashPlan{Node: "S", Kind: "any", N: -1 - r.Intn(1000)}
	default:
		kinds := []string{"abort", "close_s", "cancel_r", "cancel_s", "close_r"}
		l.Fault = &txFault{Kind: kinds[r.Intn(len(kinds))], At: -1 - r.Intn(1000)}
	}
	return l
}

var damageKinds = []string{"truncate", "bitflip", "garbage", "foreign_size", "foreign_chunk", "foreign_id", "to_fallback", "tmp_leftover", "data_deleted", "data_shortened", "data_larger", "tear_highest", "tear_highest"}

func (h resumeHarness) Gen(r *verifsim.SplitMix, tier string, idx int) any {
	sp := genResumeBase(r, h.prop)
	n := 1
	if r.Chance(1, 3) {
		n = 2 + r.Intn(2)
	}
	for i := 0; i < n; i++ {
		sp.Chain = append(sp.Chain, genLink(r))
	}
	if h.prop != "C06" && r.Chance(1, 4) {
		// the sender of an interrupted run was started with another chunk size than the
		// final one; preferably one that gives the same number of chunks for a file
		f := sp.Files[r.Intn(len(sp.Files))]
		alt := []uint32{7, 64, 512, 1024, 4096}[r.Intn(5)]
		want := chunkTotalRef(int64(f.N), sp.Chunk)
		for _, c := range []uint32{sp.Chunk + 1, sp.Chunk - 1, sp.Chunk + sp.Chunk/3, sp.Chunk - sp.Chunk/4, sp.Chunk + 2} {
			if c > 0 && c != sp.Chunk && chunkTotalRef(int64(f.N), c) == want && r.Chance(3, 4) {
				alt = c
				break
			}
		}
		if alt != sp.Chunk {
			for i := range sp.Chain {
				if i == 0 || r.Chance(1, 2) {
					sp.Chain[i].Chunk = alt
				}
			}
		}
	}
	if h.prop == "C06" && r.Chance(2, 5) {
		// a prior state written directly (every bitmap shape, in particular ones an
		// interrupted run rarely leaves), then damaged
		sp.Chain = nil
		sp.Damage = append(sp.Damage, txDamage{Kind: "synthetic", File: r.Intn(8), Arg: r.Intn(1 << 20)})
	}
	if h.prop == "C06" && r.Chance(1, 12) {
		// the verification itself is the weak point: a directly written prior state with its
		// highest marked chunk torn, and a receiver whose disk is too slow for the 2 s
		// deadline of its verification hash
		sp.Tail = []uint32{0, 0, 1}[r.Intn(3)]
		if sp.Hash == "none" {
			sp.Hash = "crc32c"
		}
		f := r.Intn(8)
		sp.Chain = nil
		sp.Damage = []txDamage{{Kind: "synthetic", File: f, Arg: r.Intn(1 << 20)}, {Kind: "tear_highest", File: f}}
		sp.SlowHashMs = []int{2500, 4000}[r.Intn(2)]
		return sp
	}
	if h.prop == "C06" && r.Chance(1, 8) {
		// the receiver's disk is slow under its verification hash (the hash has a 2 s deadline)
		sp.SlowHashMs = []int{1500, 2500, 4000}[r.Intn(3)]
	}
	if h.prop == "C06" {
		nd := 1 + r.Intn(2)
		for i := 0; i < nd; i++ {
			sp.Damage = append(sp.Damage, txDamage{Kind: damageKinds[r.Intn(len(damageKinds))], File: r.Intn(8), Arg: r.Intn(1 << 20)})
		}
	}
	if h.prop == "C05" && len(sp.Chain) >= 1 && r.Chance(1, 5) {
		// the user deletes or shortens the partial output between two runs; the second run
		// is killed at a file-system point: what its crash image claims must still be true
		sp.Chain = append(sp.Chain[:1], txLink{Seed: r.Next(), Crash: &verifsim.CrashPlan{Node: "R", Kind: []string{"fs", "any"}[r.Intn(2)], N: -1 - r.Intn(1000)}})
		sp.DamageAfter = 1
		sp.Damage = []txDamage{{Kind: []string{"data_deleted", "data_shortened"}[r.Intn(2)], File: r.Intn(8)}}
	}
	if h.prop == "C06" && len(sp.Chain) >= 1 && r.Chance(1, 6) {
		// the damage happens between two interrupted runs: the second one (killed at a
		// file-system point) meets it first, the final run meets what that one left
		sp.Chain = append(sp.Chain[:1], txLink{Seed: r.Next(), Crash: &verifsim.CrashPlan{Node: "R", Kind: "fs", N: -1 - r.Intn(1000)}})
		sp.DamageAfter = 1
		sp.Damage = []txDamage{{Kind: []string{"data_deleted", "data_shortened", "data_deleted"}[r.Intn(3)], File: r.Intn(8)}}
	}
	if h.prop == "C06" && r.Chance(1, 6) {
		// a stale sidecar that sits only at the fallback location: data file deleted or shortened
		f := r.Intn(8)
		sp.NoRoot, sp.Scan = true, "root"
		sp.Damage = append(sp.Damage, txDamage{Kind: "to_fallback", File: f}, txDamage{Kind: []string{"data_deleted", "data_shortened"}[r.Intn(2)], File: f})
	}
	for _, d := range sp.Damage {
		if d.Kind == "data_larger" {
			// alone: cut back to its old length by a second damage it would be a file of the
			// right size and foreign content in EVERY chunk - damage the property does not promise
			// to detect (only the last recorded chunk is verified)
			sp.Damage = []txDamage{d}
			break
		}
	}
	if tier == "thorough" && idx%20 == 0 && h.prop != "C06" {
		// exhaustive: crash the receiver at every crash point of one schedule
		sp.Chain = []txLink{{Seed: sp.Chain[0].Seed, Crash: &verifsim.CrashPlan{Node: "R", Kind: "fs", N: -1}}}
		sp.EnumFault = true
	}
	return sp
}

func (resumeHarness) Decode(raw json.RawMessage) (any, error) {
	var sp txSpec
	err := json.Unmarshal(raw, &sp)
	return sp, err
}

func (resumeHarness) Shrink(spec any) []any {
	sp := spec.(txSpec)
	out := shrinkTx(sp)
	if sp.EnumFault {
		c := cloneSpec(sp)
		c.EnumFault = false
		out = append([]any{c}, out...)
	}
	for i, l := range sp.Chain {
		if l.Crash != nil && l.Crash.Torn > 0 {
			c := cloneSpec(sp)
			cp := *l.Crash
			cp.Torn = 0
			c.Chain[i].Crash = &cp
			out = append(out, c)
		}
	}
	return out
}

func copyTree(src, dst string) error {
	return filepath.Walk(src, func(p string, info os.FileInfo, err error) error {
		if err != nil {
			return err
		}
		rel, _ := filepath.Rel(src, p)
		t := filepath.Join(dst, rel)
		if info.IsDir() {
			return os.MkdirAll(t, 0o755)
		}
		b, err := os.ReadFile(p)
		if err != nil {
			return err
		}
		return os.WriteFile(t, b, 0o644)
	})
}

type sidecarFound struct {
	path string
	sc   *Sidecar
	item *manifest.FileItem
}

// findSidecars loads every sidecar file below out with the repository's own
// LoadSidecar (must be called outside a simulation bubble).
func findSidecars(out string, m manifest.Manifest, chunk uint32) []sidecarFound {
	var res []sidecarFound
	filepath.Walk(out, func(p string, info os.FileInfo, err error) error {
		if err != nil || info.IsDir() || !strings.HasSuffix(p, sidecarSuffix) {
			return nil
		}
		if filepath.Base(filepath.Dir(p)) != sidecarDir {
			return nil
		}
		sc, err := LoadSidecar(p)
		if err != nil {
			return nil // unreadable: ignored by the product as well
		}
		f := sidecarFound{path: p, sc: sc}
		for i := range m.Items {
			it := &m.Items[i]
			if !it.IsDir && it.ID == sc.FileID && it.Size == sc.FileSize && sc.ChunkSize == chunk && strings.TrimSuffix(filepath.Base(p), sidecarSuffix) == sidecarIdentifier(*it) {
				f.item = it
			}
		}
		res = append(res, f)
		return nil
	})
	return res
}

// checkImage is the C05 oracle on a crash image.
// externalDamage is set while the history being judged contains a deletion or shortening
// of the output by the user between two runs.
var externalDamage bool

func checkImage(sp *txSpec, out string, m manifest.Manifest, lastGood map[string][]byte) []string {
	var bad []string
	base := sp.outBase(out, m)
	content := map[string][]byte{}
	for _, f := range sp.Files {
		content[f.P] = fileContent(sp.ContentSeed, f.seedPath(), f.N)
	}
	for _, sf := range findSidecars(out, m, sp.Chunk) {
		if sf.item == nil {
			continue // foreign identity: the product discards it
		}
		rel := sf.item.RelPath
		srcBytes := content[relToSpecPath(sp, rel)]
		data, err := os.ReadFile(filepath.Join(base, filepath.FromSlash(rel)))
		if externalDamage && (err != nil || int64(len(data)) != sf.item.Size) {
			// the user removed or shortened the output between the runs and the receiver has
			// not re-created it yet: the next run sees a missing / wrong-size file and drops
			// the metadata (that is C06's clause, checked there). What C05 must never find is
			// a file of the right size next to marks it does not honour.
			continue
		}
		cs := int64(sp.Chunk)
		for i := 0; i < int(sf.sc.TotalChunks); i++ {
			if !sf.sc.bitmap.Get(i) {
				continue
			}
			lo := int64(i) * cs
			hi := lo + cs
			if hi > int64(len(srcBytes)) {
				hi = int64(len(srcBytes))
			}
			if lo >= int64(len(srcBytes)) {
				continue
			}
			if err != nil || int64(len(data)) < hi || !bytes.Equal(data[lo:hi], srcBytes[lo:hi]) {
				bad = append(bad, fmt.Sprintf("claims-unsafe-chunk|sidecar %s marks chunk %d of %s complete but the output file does not hold those bytes (file present=%v len=%d)", filepath.Base(sf.path), i, rel, err == nil, len(data)))
				break
			}
		}
	}
	// atomic replacement: the sidecar path holds the last completely installed version
	for p, want := range lastGood {
		got, err := os.ReadFile(p)
		if err != nil {
			bad = append(bad, fmt.Sprintf("sidecar-not-atomic|%s: a version had been installed but the file is gone/unreadable after the kill: %v", filepath.Base(p), err))
			continue
		}
		if !bytes.Equal(got, want) {
			bad = append(bad, fmt.Sprintf("sidecar-not-atomic|%s: content after the kill (%d bytes) is not the last completely installed version (%d bytes)", filepath.Base(p), len(got), len(want)))
		}
	}
	return bad
}

// relToSpecPath maps a manifest rel path back to the generated file path.
func relToSpecPath(sp *txSpec, rel string) string {
	if sp.Scan == "paths" {
		return rel
	}
	return rel
}

type chainResult struct {
	damaged      []string
	damagedEarly bool
	eps        []*epResult
	final      *epResult
	c05        []string
	c04b       []string
	imageCards map[string]*Bitmap // file key -> bitmap found before the final run
	skipped    string
	crashSites []string
}

func resolveLink(sp *txSpec, l txLink, src, out string, enumN int) (txLink, int, string) {
	// counting run on a copy of the current output state
	need := (l.Crash != nil && l.Crash.N < 0) || (l.Fault != nil && l.Fault.At < 0) || enumN != 0
	if !need {
		return l, 0, ""
	}
	tmp := out + ".count"
	os.RemoveAll(tmp)
	if err := copyTree(out, tmp); err != nil {
		return l, 0, "copy: " + err.Error()
	}
	defer os.RemoveAll(tmp)
	ep := runEpisode(epCfg{sp: sp, seed: l.Seed, src: src, out: tmp})
	if ep.outcome != verifsim.Finished {
		return l, 0, "counting run did not finish"
	}
	r := l
	k := 0
	if l.Crash != nil {
		cp := *l.Crash
		switch cp.Kind {
		case "any":
			k = ep.crashSeen[cp.Node+"/fs"] + ep.crashSeen[cp.Node+"/net"]
		default:
			k = ep.crashSeen[cp.Node+"/"+cp.Kind]
		}
		if k == 0 {
			return l, 0, "no crash points"
		}
		if enumN > 0 {
			cp.N = enumN
		} else if cp.N < 0 {
			cp.N = 1 + k*(-cp.N-1)/1000
		}
		r.Crash = &cp
	}
	if l.Fault != nil && l.Fault.At < 0 {
		f := *l.Fault
		f.At = ep.deliveries * (-f.At - 1) / 1000
		r.Fault = &f
	}
	return r, k, ""
}

func runChain(sp *txSpec, src, out string, enumN int) (cr chainResult) {
	lastGood := map[string][]byte{}
	externalDamage = false
	defer func() { externalDamage = false }()
	for li, l0 := range sp.Chain {
		n := 0
		if li == 0 {
			n = enumN
		}
		lsp := *sp
		if l0.Chunk > 0 {
			lsp.Chunk = l0.Chunk
		}
		sp := &lsp
		l, _, skip := resolveLink(sp, l0, src, out, n)
		if skip != "" {
			cr.skipped = skip
			return
		}
		cfg := epCfg{sp: sp, seed: l.Seed, src: src, out: out, crash: l.Crash}
		if l.Fault != nil {
			cfg.faults = []txFault{*l.Fault}
		}
		lastGood = map[string][]byte{}
		installedBroken = nil
		ep := runEpisodeTracked(cfg, lastGood)
		cr.eps = append(cr.eps, ep)
		for _, b := range installedBroken {
			cr.c05 = append(cr.c05, fmt.Sprintf("%s (link %d)", b, li))
		}
		if (sp.Prop == "C06" || sp.Prop == "C05") && sp.DamageAfter == li+1 && li+1 < len(sp.Chain) {
			// the stored state is damaged between two interrupted runs
			tornChunks = nil
			for _, d := range sp.Damage {
				if k := applyDamage(sp, out, ep.manifest, d); k != "" {
					cr.damaged = append(cr.damaged, k)
				}
			}
			cr.damagedEarly = true
			externalDamage = true
		}
		if ep.outcome != verifsim.Finished {
			cr.skipped = "interrupted run hung (C02/C03's business): " + hangSignature(ep)
			return
		}
		if ep.crashFired {
			cr.crashSites = append(cr.crashSites, ep.crashSite)
		}
		if ep.crashFired && l.Crash != nil && l.Crash.Node == "R" {
			for _, b := range checkImage(sp, out, ep.manifest, lastGood) {
				cr.c05 = append(cr.c05, fmt.Sprintf("%s (kill %d of link %d at %s)", b, l.Crash.N, li, ep.crashSite))
			}
		}
	}
	return
}

// runEpisodeTracked runs an episode while recording, for every sidecar path,
// the content installed by the last completed rename/write on that path.
func runEpisodeTracked(cfg epCfg, lastGood map[string][]byte) *epResult {
	trackOps = func(op *verifsim.FSOp) {
		p := op.Path
		if op.Kind == "rename" {
			p = op.Path2
		}
		if op.Node != "R" || !strings.HasSuffix(p, sidecarSuffix) {
			return
		}
		switch op.Kind {
		case "rename", "writefile":
			if b, err := os.ReadFile(p); err == nil {
				// the version just installed must be a complete record: a kill right
				// now must not find garbage where a valid version was before
				if _, had := lastGood[p]; had {
					if lerr := sidecarRecordValid(b); lerr != nil {
						installedBroken = append(installedBroken, fmt.Sprintf("sidecar-not-atomic|%s: a %s by %s replaced a valid version with an unreadable one (%d bytes: %v); a kill at that instant loses every recorded chunk", filepath.Base(p), op.Kind, op.Site, len(b), lerr))
					}
				}
				lastGood[p] = b
			}
		case "wfopen":
			if _, had := lastGood[p]; had {
				installedBroken = append(installedBroken, fmt.Sprintf("sidecar-not-atomic|%s: rewritten in place by %s (truncated while it held a valid version)", filepath.Base(p), op.Site))
			}
		case "remove":
			delete(lastGood, p)
		}
	}
	defer func() { trackOps = nil }()
	return runEpisode(cfg)
}

// sidecarRecordValid is the harness' own reading of the sidecar format (magic,
// version, chunk size, file size, chunk count, id, bitmap, CRC-32C of all that);
// it does not go through the code under test or the interposed file system.
func sidecarRecordValid(b []byte) error {
	if len(b) < 4+2+4+8+4+2+4+4 {
		return fmt.Errorf("too short (%d bytes)", len(b))
	}
	if string(b[:4]) != "SBM2" {
		return fmt.Errorf("bad magic %q", b[:4])
	}
	total := binary.BigEndian.Uint32(b[18:22])
	idLen := int(binary.BigEndian.Uint16(b[22:24]))
	o := 24 + idLen
	if o+4 > len(b) {
		return fmt.Errorf("id runs past the end")
	}
	bl := int(binary.BigEndian.Uint32(b[o : o+4]))
	o += 4
	if o+bl+4 != len(b) {
		return fmt.Errorf("length %d does not match bitmap length %d", len(b), bl)
	}
	if bl != int((total+7)/8) {
		return fmt.Errorf("bitmap of %d bytes for %d chunks", bl, total)
	}
	if crc32.Checksum(b[:o+bl], crc32.MakeTable(crc32.Castagnoli)) != binary.BigEndian.Uint32(b[o+bl:]) {
		return fmt.Errorf("checksum mismatch")
	}
	return nil
}

// installedBroken collects atomic-replacement breaks observed while a run was going on.
var installedBroken []string

var trackOps func(op *verifsim.FSOp)

// syntheticSrc is the source root used when a prior state is written directly.
var syntheticSrc string

// tornChunks lists (file key, chunk index) pairs damaged by tear_highest in the current history.
var tornChunks [][2]uint64

// fallbackHolds reports whether a sidecar for the item sits at the fallback location.
func fallbackHolds(sp *txSpec, out string, m manifest.Manifest, it manifest.FileItem) bool {
	if !sp.NoRoot || m.Root == "" {
		return false
	}
	_, err := os.Stat(SidecarPath(filepath.Join(out, m.Root), "", sidecarIdentifier(it)))
	return err == nil
}

func applyDamage(sp *txSpec, out string, m manifest.Manifest, d txDamage) string {
	var files []manifest.FileItem
	for _, it := range m.Items {
		if !it.IsDir {
			files = append(files, it)
		}
	}
	if len(files) == 0 {
		return ""
	}
	it := files[d.File%len(files)]
	base := sp.outBase(out, m)
	scPath := SidecarPath(base, "", sidecarIdentifier(it))
	dataPath := filepath.Join(base, filepath.FromSlash(it.RelPath))
	raw, scErr := os.ReadFile(scPath)
	switch d.Kind {
	case "synthetic":
		total := chunkTotalRef(it.Size, sp.Chunk)
		if total == 0 {
			return ""
		}
		content, err := os.ReadFile(syntheticSrc + "/" + it.RelPath)
		if err != nil {
			return ""
		}
		os.MkdirAll(filepath.Dir(dataPath), 0o755)
		out := make([]byte, it.Size)
		os.Remove(scPath)
		sc, err := CreateSidecar(scPath, it.ID, it.Size, sp.Chunk)
		if err != nil {
			return ""
		}
		r := verifsim.NewSplitMix(uint64(d.Arg))
		mark := func(i uint32) {
			lo := int64(i) * int64(sp.Chunk)
			hi := lo + int64(sp.Chunk)
			if hi > it.Size {
				hi = it.Size
			}
			copy(out[lo:hi], content[lo:hi])
			sc.MarkComplete(i)
		}
		switch d.Arg % 5 {
		case 0: // only the first chunk
			mark(0)
		case 1: // a prefix
			n := 1 + uint32(r.Intn(int(total)))
			for i := uint32(0); i < n; i++ {
				mark(i)
			}
		case 2: // holes
			for i := uint32(0); i < total; i++ {
				if r.Chance(1, 2) {
					mark(i)
				}
			}
		case 3: // everything
			for i := uint32(0); i < total; i++ {
				mark(i)
			}
		case 4: // only the last chunk
			mark(total - 1)
		}
		sc.Flush()
		os.WriteFile(dataPath, out, 0o644)
	case "old_output":
		// an older copy of the file from an earlier fetch (no resume metadata): longer,
		// shorter, of the same length with other bytes, or non-empty where the source is empty
		var n int64
		switch d.Arg % 4 {
		case 0:
			n = it.Size + 37
		case 1:
			n = it.Size / 2
		case 2:
			n = it.Size
		case 3:
			n = 30
		}
		r := verifsim.NewSplitMix(uint64(d.Arg) + 99)
		b := make([]byte, n)
		for i := range b {
			b[i] = byte(r.Next())
		}
		os.MkdirAll(filepath.Dir(dataPath), 0o755)
		os.WriteFile(dataPath, b, 0o644)
	case "truncate":
		if scErr != nil || len(raw) == 0 {
			return ""
		}
		os.WriteFile(scPath, raw[:d.Arg%len(raw)], 0o644)
	case "bitflip":
		if scErr != nil || len(raw) == 0 {
			return ""
		}
		i := d.Arg % (len(raw) * 8)
		raw[i/8] ^= 1 << (i % 8)
		os.WriteFile(scPath, raw, 0o644)
	case "garbage":
		r := verifsim.NewSplitMix(uint64(d.Arg))
		b := make([]byte, 1+d.Arg%80)
		for i := range b {
			b[i] = byte(r.Next())
		}
		os.MkdirAll(filepath.Dir(scPath), 0o755)
		os.WriteFile(scPath, b, 0o644)
	case "foreign_size", "foreign_chunk", "foreign_id", "stale_complete":
		// a well-formed sidecar of another file / geometry, every chunk marked complete
		id, size, cs := it.ID, it.Size, sp.Chunk
		switch d.Kind {
		case "foreign_size":
			size = it.Size + int64(sp.Chunk)
		case "foreign_chunk":
			cs = sp.Chunk * 2
			// prefer another chunk size that gives the same number of chunks
			want := chunkTotalRef(it.Size, sp.Chunk)
			for _, c := range []uint32{sp.Chunk + 1, sp.Chunk - 1, sp.Chunk + 2, sp.Chunk + sp.Chunk/3, sp.Chunk - sp.Chunk/4} {
				if c > 0 && c != sp.Chunk && chunkTotalRef(it.Size, c) == want && d.Arg%3 != 0 {
					cs = c
					break
				}
			}
		case "foreign_id":
			id = "0123456789abcdef"
		}
		os.Remove(scPath)
		sc, err := CreateSidecar(scPath, id, size, cs)
		if err != nil {
			return ""
		}
		for i := uint32(0); i < sc.TotalChunks; i++ {
			sc.MarkComplete(i)
		}
		sc.Flush()
	case "to_fallback":
		// the sidecar sits only at the fallback location <out>/<root>/.thruflux_resumedata
		// (left by an earlier run that kept the root directory); the receiver now runs
		// without root directory
		if scErr != nil || !sp.NoRoot || m.Root == "" {
			return ""
		}
		fb := SidecarPath(filepath.Join(out, m.Root), "", sidecarIdentifier(it))
		if fb == scPath {
			return ""
		}
		os.MkdirAll(filepath.Dir(fb), 0o755)
		if os.WriteFile(fb, raw, 0o644) != nil {
			return ""
		}
		os.Remove(scPath)
	case "tmp_leftover":
		os.MkdirAll(filepath.Dir(scPath), 0o755)
		os.WriteFile(scPath+".tmp", []byte("partial"), 0o644)
	case "data_deleted":
		if scErr != nil && !fallbackHolds(sp, out, m, it) {
			return ""
		}
		os.Remove(dataPath)
	case "data_shortened":
		if scErr != nil && !fallbackHolds(sp, out, m, it) {
			return ""
		}
		if fi, err := os.Stat(dataPath); err == nil && fi.Size() > 0 {
			os.Truncate(dataPath, fi.Size()/2)
		} else {
			return ""
		}
	case "data_larger":
		// another, longer version of the file was copied over the partial one: other bytes,
		// 1 byte ... one more copy of its length longer
		if scErr != nil && !fallbackHolds(sp, out, m, it) {
			return ""
		}
		fi, err := os.Stat(dataPath)
		if err != nil || fi.Size() == 0 {
			return ""
		}
		extra := []int64{1, int64(sp.Chunk), fi.Size()}[int(verifsim.Mix(sp.Seed, "larger"+it.RelPath)%3)]
		b := make([]byte, fi.Size()+extra)
		for i := range b {
			b[i] = byte(verifsim.Mix(sp.Seed^0x1A26E2, it.RelPath) >> (8 * (uint(i) % 8)) ^ uint64(i)*131)
		}
		if os.WriteFile(dataPath, b, 0o644) != nil {
			return ""
		}
	case "tear_highest":
		if sp.Hash == "none" {
			return "" // detection is by hash; none is configured
		}
		sc, err := LoadSidecar(scPath)
		if err != nil {
			return ""
		}
		// (found with the harness' own scan, not with the code under test)
		hi, ok := -1, false
		for i := 0; i < int(sc.TotalChunks); i++ {
			if sc.bitmap.Get(i) {
				hi, ok = i, true
			}
		}
		if !ok {
			return ""
		}
		f, err := os.OpenFile(dataPath, os.O_RDWR, 0)
		if err != nil {
			return ""
		}
		off := int64(hi) * int64(sp.Chunk)
		n := int64(sp.Chunk)
		if off+n > it.Size {
			n = it.Size - off
		}
		if n <= 0 {
			f.Close()
			return ""
		}
		// torn write: the second half of the chunk is zeroes / stale
		tornChunks = append(tornChunks, [2]uint64{fileKeyForItem(it), uint64(hi)})
		junk := make([]byte, n-n/2)
		f.ReadAt(junk, off+n/2)
		for i := range junk {
			junk[i] ^= 0xFF // certainly different from what was there (a fixed filler can coincide with the data)
		}
		f.WriteAt(junk, off+n/2)
		f.Close()
	default:
		return ""
	}
	return d.Kind
}

func (h resumeHarness) Run(spec any) (res verifsim.RunResult) {
	sp := spec.(txSpec)
	res.Counters = map[string]int64{}
	src, out, cleanup := newRunDirs()
	defer cleanup()
	if err := writeTree(src, sp.ContentSeed, sp.Files, sp.Dirs); err != nil {
		res.Skipped = true
		return
	}
	enum := []int{0}
	if sp.EnumFault {
		// count the crash points of the first link's schedule
		_, k, skip := resolveLink(&sp, sp.Chain[0], src, out, 1)
		if skip != "" || k == 0 {
			res.Skipped = true
			res.Counters["skipped:"+skip]++
			return
		}
		enum = enum[:0]
		for n := 1; n <= k; n++ {
			enum = append(enum, n)
		}
		res.Counters["crash_points_enumerated"] += int64(k)
	}
	addV := func(v *verifsim.Violation) {
		for _, x := range res.Violations {
			if x.Class == v.Class && x.Signature == v.Signature {
				return
			}
		}
		res.Violations = append(res.Violations, v)
	}
	judged := 0
	for _, n := range enum {
		os.RemoveAll(out)
		os.MkdirAll(out, 0o755)
		cr := runChain(&sp, src, out, n)
		for _, ep := range cr.eps {
			fillRes(&res, ep)
		}
		res.Counters["interrupted_runs"] += int64(len(cr.eps))
		for _, s := range cr.crashSites {
			res.Counters["crash_at:"+siteClass(s)]++
		}
		if cr.skipped != "" {
			res.Counters["chain_skipped"]++
			continue
		}
		var last *epResult
		if len(cr.eps) > 0 {
			last = cr.eps[len(cr.eps)-1]
		}
		if last == nil && h.prop == "C06" {
			// no interrupted run: the prior state is written directly by a "synthetic" damage
			m0, _, _, err := scanFor(&sp, src)
			if err != nil {
				continue
			}
			last = &epResult{manifest: m0}
			os.MkdirAll(sp.outBase(out, m0), 0o755)
		}
		syntheticSrc = src
		mk := func(class, sig, detail string, ep *epResult) *verifsim.Violation {
			v := &verifsim.Violation{Class: class, Signature: sig, Detail: detail}
			if ep != nil {
				v.LogHash, v.Steps, v.Trace = verifsim.HashStr(ep.hash), ep.steps, ep.log
			}
			return v
		}
		if h.prop == "C05" {
			judged++
			if res.Sample == nil && len(cr.crashSites) > 0 {
				res.Sample = map[string]any{"spec": sp, "kill_points": cr.crashSites, "image_findings": cr.c05}
			}
			for _, b := range cr.c05 {
				parts := strings.SplitN(b, "|", 2)
				addV(mk(parts[0], "crash-image", parts[1], last))
			}
			continue
		}
		if last == nil {
			continue
		}
		m := last.manifest
		// C06: damage the stored state between the runs
		var damaged []string
		if !cr.damagedEarly {
			tornChunks = nil
		}
		if h.prop == "C06" && cr.damagedEarly {
			damaged = cr.damaged
			for _, k := range damaged {
				res.Counters["damage_applied_between_runs:"+k]++
			}
		}
		if h.prop == "C06" && !cr.damagedEarly {
			for _, d := range sp.Damage {
				if k := applyDamage(&sp, out, m, d); k != "" {
					damaged = append(damaged, k)
					res.Counters["damage_applied:"+k]++
				}
			}
			if len(damaged) == 0 {
				res.Counters["damage_not_applicable"]++
				continue
			}
		}
		// what the image holds before the resumed run (C04b)
		image := map[uint64]*Bitmap{}
		imageTotal := map[uint64]uint32{}
		for _, sf := range findSidecars(out, m, sp.Chunk) {
			if sf.item != nil && filepath.Dir(filepath.Dir(sf.path)) == sp.outBase(out, m) {
				image[fileKeyForItem(*sf.item)] = sf.sc.bitmap
				imageTotal[fileKeyForItem(*sf.item)] = sf.sc.TotalChunks
			}
		}
		final := runEpisode(epCfg{sp: &sp, seed: sp.Seed ^ 0xF1, src: src, out: out, faultFree: true})
		fillRes(&res, final)
		res.Counters["resumed_runs"]++
		judged++
		if res.Sample == nil {
			res.Sample = map[string]any{"spec": sp, "kill_points": cr.crashSites, "damage": damaged, "resumed_run": map[string]any{"sender": errStr(final.sendErr), "receiver": errStr(final.recvErr), "outcome": final.outcome.String(), "resume_reports": len(final.rw.infos)}}
		}
		ok := final.outcome == verifsim.Finished && final.sendRet && final.recvRet && final.sendErr == nil && final.recvErr == nil
		base := sp.outBase(out, m)
		prefix := ""
		if !sp.NoRoot {
			prefix = m.Root
		}
		want := expectedDigest(prefix, sp.ContentSeed, sp.Files, sp.Dirs)
		if sp.NoRoot && m.Root != "" {
			// what the harness itself planted at the fallback location is not output
			for _, d := range damaged {
				if d == "to_fallback" {
					os.RemoveAll(filepath.Join(out, m.Root, ".thruflux_resumedata"))
					os.Remove(filepath.Join(out, m.Root)) // only if nothing else is in it
				}
			}
		}
		got, _ := digestTree(out, out, base)
		diff := diffDigests(want, got)
		switch h.prop {
		case "C04":
			switch {
			case final.outcome != verifsim.Finished:
				addV(mk("resume-hang", hangSignature(final), fmt.Sprintf("resumed run after %v did not finish: %v", cr.crashSites, final.blocked), final))
			case !ok:
				addV(mk("resume-failed", "send="+classifyErr(final.sendErr)+";recv="+classifyErr(final.recvErr), fmt.Sprintf("resumed run after interruption(s) at %v failed: sender=%s receiver=%s", cr.crashSites, errStr(final.sendErr), errStr(final.recvErr)), final))
			case diff != "":
				addV(mk("resume-wrong-tree", treeDiffSig(want, got), fmt.Sprintf("resumed run after interruption(s) at %v succeeded but the tree differs: %s", cr.crashSites, diff), final))
			}
			// (b) finished work is advertised
			first := map[uint64]wInfo{}
			for _, in := range final.rw.infos {
				if _, ok := first[in.StreamID]; !ok {
					first[in.StreamID] = in
				}
			}
			if final.outcome == verifsim.Finished {
				for key, bm := range image {
					in, ok := first[key]
					if !ok {
						// The report may legitimately still be queued when the transfer
						// ends (slow control writer): counted as a reach probe, not judged.
						if bm.CountSet() > 0 {
							res.Counters["files_with_marked_chunks_but_no_complete_report"]++
						}
						continue
					}
					if bm.CountSet() > 0 {
						res.Counters["files_with_marked_chunks_and_report_checked"]++
					}
					if bm.CountSet() == 0 {
						continue
					}
					if in.TotalChunks != imageTotal[key] {
						addV(mk("resume-not-advertised", "total-chunks", fmt.Sprintf("FileResumeInfo.TotalChunks=%d, sidecar says %d", in.TotalChunks, imageTotal[key]), final))
						continue
					}
					adv, err := BitmapFromBytes(in.Bitmap, int(in.TotalChunks))
					if err != nil {
						addV(mk("resume-not-advertised", "bad-bitmap", err.Error(), final))
						continue
					}
					for i := 0; i < int(in.TotalChunks); i++ {
						if bm.Get(i) && !adv.Get(i) {
							addV(mk("resume-not-advertised", "bitmap-subset", fmt.Sprintf("chunk %d is complete in the sidecar found after the kill but not advertised in the first FileResumeInfo", i), final))
							break
						}
					}
				}
			}
		case "C06":
			sort.Strings(damaged)
			dk := strongestDamage(damaged)
			switch {
			case final.outcome != verifsim.Finished:
				addV(mk("resume-hang", dk+":"+hangSignature(final), fmt.Sprintf("resumed run on damaged state (%s) did not finish: %v", dk, final.blocked), final))
			case ok && diff != "":
				mech := ""
				if dk == "tear_highest" {
					// did the sender notice (hash mismatch) and send the repair?
					mech = ":no-repair-chunk-sent"
					for _, tc := range tornChunks {
						for _, f := range final.frames {
							if f.key == tc[0] && uint64(f.idx) == tc[1] && !f.headerOnly {
								mech = ":repair-chunk-sent-but-not-applied"
							}
						}
					}
				}
				addV(mk("damaged-state-trusted", dk+mech+":"+treeDiffSig(want, got), fmt.Sprintf("resume state damaged by %s: both sides reported success but the tree differs: %s", dk+mech, diff), final))
			case final.recvRet && final.recvErr == nil && diff != "":
				addV(mk("damaged-state-trusted", dk+":receiver-only:"+treeDiffSig(want, got), fmt.Sprintf("resume state damaged by %s: receiver reported success (sender: %s) but the tree differs: %s", dk, errStr(final.sendErr), diff), final))
			}
		}
	}
	if judged == 0 {
		res.Skipped = true
	}
	return
}

func siteClass(site string) string {
	if i := strings.IndexByte(site, '#'); i >= 0 {
		site = site[:i]
	}
	return site
}

// strongestDamage names the damage kind a finding is attributed to, so that
// an unrelated second damage in the same history does not change its identity.
func strongestDamage(kinds []string) string {
	var real []string
	for _, k := range kinds {
		if k != "synthetic" {
			real = append(real, k)
		}
	}
	if len(real) == 0 {
		return "synthetic-only"
	}
	kinds = real
	for _, k := range []string{"tear_highest", "to_fallback", "data_deleted", "data_shortened", "data_larger", "foreign_size", "foreign_chunk", "foreign_id", "bitflip", "truncate", "garbage", "tmp_leftover"} {
		for _, x := range kinds {
			if x == k {
				return k
			}
		}
	}
	return strings.Join(kinds, "+")
}
