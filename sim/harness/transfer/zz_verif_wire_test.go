package transfer

// Wire history: everything both engines wrote, as issued (stamped with the
// scheduler step of the Write call), decoded with the repository's own
// decoders.

import (
	"bytes"
	"encoding/binary"
	"errors"
	"fmt"
	"io"
	"sort"

	"github.com/sheerbytes/sheerbytes/internal/verifsim"
	"github.com/sheerbytes/sheerbytes/pkg/manifest"
)

type wireWrite struct {
	off  int64
	n    int
	step int
}

type wireStream struct {
	conn    string
	id      uint64
	buf     []byte
	writes  []wireWrite
	fin     bool
	finStep int
}

type wireLog struct {
	streams map[string]*wireStream
}

func newWireLog() *wireLog { return &wireLog{streams: map[string]*wireStream{}} }

func (w *wireLog) tap(from *verifsim.NConn, sid uint64, data []byte, fin bool, step int) {
	k := fmt.Sprintf("%s/%d", from.Name, sid)
	s := w.streams[k]
	if s == nil {
		s = &wireStream{conn: from.Name, id: sid}
		w.streams[k] = s
	}
	if fin {
		s.fin, s.finStep = true, step
		return
	}
	s.writes = append(s.writes, wireWrite{off: int64(len(s.buf)), n: len(data), step: step})
	s.buf = append(s.buf, data...)
}

func (s *wireStream) stepAt(off int64) int {
	i := sort.Search(len(s.writes), func(i int) bool { return s.writes[i].off+int64(s.writes[i].n) > off })
	if i < len(s.writes) {
		return s.writes[i].step
	}
	if len(s.writes) > 0 {
		return s.writes[len(s.writes)-1].step
	}
	return 0
}

// posStream lets the repo's decoders read from a recorded byte string.
type posStream struct {
	r *bytes.Reader
}

func (p *posStream) Read(b []byte) (int, error)  { return p.r.Read(b) }
func (p *posStream) Write(b []byte) (int, error) { return len(b), nil }
func (p *posStream) Close() error                { return nil }
func (p *posStream) pos() int64                  { return p.r.Size() - int64(p.r.Len()) }

type wBegin struct {
	FileBegin
	step int
}
type wEnd struct {
	key  uint64
	step int
}
type wFrame struct {
	key        uint64
	idx, n     uint32
	stream     string
	stepStart  int
	stepEnd    int
	headerOnly bool
}
type wDone struct {
	FileDone
	step int
}
type wInfo struct {
	FileResumeInfo
	step int
}

type senderWire struct {
	haveHeader bool
	manifest   manifest.Manifest
	dataCount  int
	begins     []wBegin
	reqs       []ResumeRequest
	ends       []wEnd
	endSeen    bool
	endStep    int
	frames     []wFrame
	err        string
}

type recvWire struct {
	dones []wDone
	infos []wInfo
	err   string
}

func decodeSenderControl(s *wireStream) (sw senderWire) {
	if s == nil {
		sw.err = "no control stream written"
		return
	}
	ps := &posStream{r: bytes.NewReader(s.buf)}
	m, err := readControlHeader(ps)
	if err != nil {
		sw.err = "header: " + err.Error()
		return
	}
	sw.haveHeader, sw.manifest = true, m
	for ps.r.Len() > 0 {
		at := ps.pos()
		typ, msg, err := readControlMessage(ps)
		if err != nil {
			if !errors.Is(err, io.EOF) && !errors.Is(err, io.ErrUnexpectedEOF) {
				sw.err = fmt.Sprintf("control message at %d: %v", at, err)
			}
			return // a record cut off by the end of the run is not a record
		}
		step := s.stepAt(at)
		switch typ {
		case controlTypeDataStreams:
			sw.dataCount = int(msg.(DataStreams).Count)
		case controlTypeFileBegin:
			sw.begins = append(sw.begins, wBegin{msg.(FileBegin), step})
		case controlTypeResumeRequest:
			sw.reqs = append(sw.reqs, msg.(ResumeRequest))
		case controlTypeFileEnd:
			sw.ends = append(sw.ends, wEnd{msg.(FileEnd).StreamID, step})
		case controlTypeEnd:
			sw.endSeen, sw.endStep = true, step
		default:
			sw.err = fmt.Sprintf("sender wrote unexpected control type 0x%02x", typ)
			return
		}
	}
	return
}

func decodeRecvControl(s *wireStream) (rw recvWire) {
	if s == nil {
		return
	}
	ps := &posStream{r: bytes.NewReader(s.buf)}
	for ps.r.Len() > 0 {
		at := ps.pos()
		typ, msg, err := readControlMessage(ps)
		if err != nil {
			if !errors.Is(err, io.EOF) && !errors.Is(err, io.ErrUnexpectedEOF) {
				rw.err = fmt.Sprintf("control message at %d: %v", at, err)
			}
			return
		}
		step := s.stepAt(at)
		switch typ {
		case controlTypeFileDone:
			rw.dones = append(rw.dones, wDone{msg.(FileDone), step})
		case controlTypeFileResumeInfo:
			rw.infos = append(rw.infos, wInfo{msg.(FileResumeInfo), step})
		default:
			rw.err = fmt.Sprintf("receiver wrote unexpected control type 0x%02x", typ)
			return
		}
	}
	return
}

func decodeDataFrames(s *wireStream, name string) []wFrame {
	var out []wFrame
	off := int64(0)
	for int64(len(s.buf))-off >= dataChunkHeaderLen {
		h := s.buf[off : off+dataChunkHeaderLen]
		f := wFrame{key: binary.BigEndian.Uint64(h[0:8]), idx: binary.BigEndian.Uint32(h[8:12]), n: binary.BigEndian.Uint32(h[12:16]), stream: name}
		f.stepStart = s.stepAt(off)
		end := off + dataChunkHeaderLen + int64(f.n)
		if end > int64(len(s.buf)) {
			f.headerOnly = true
			f.stepEnd = f.stepStart
			out = append(out, f)
			break
		}
		f.stepEnd = s.stepAt(end - 1)
		out = append(out, f)
		off = end
	}
	return out
}
