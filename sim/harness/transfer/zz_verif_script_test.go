package transfer

// Scripted (byzantine) peers over SimNet: C07 (receiver confinement) and C15
// (malformed input => error, no crash, no hang, bounded memory).

import (
	"bytes"
	"context"
	"encoding/binary"
	"encoding/json"
	"fmt"
	"hash/crc32"
	"os"
	"path/filepath"
	"runtime"
	"sort"
	"strings"
	"sync"
	"sync/atomic"
	"testing"
	"testing/synctest"
	"time"

	"github.com/sheerbytes/sheerbytes/internal/verifsim"
	"github.com/sheerbytes/sheerbytes/pkg/manifest"
)

type bufStream struct{ bytes.Buffer }

func (b *bufStream) Close() error { return nil }

func encFileBegin(rel string, size uint64, chunk uint32, key uint64, hash byte) []byte {
	var b bytes.Buffer
	b.WriteByte(controlTypeFileBegin)
	binary.Write(&b, binary.BigEndian, uint16(len(rel)))
	b.WriteString(rel)
	binary.Write(&b, binary.BigEndian, size)
	binary.Write(&b, binary.BigEndian, chunk)
	binary.Write(&b, binary.BigEndian, key)
	b.WriteByte(hash)
	binary.Write(&b, binary.BigEndian, uint16(0))
	binary.Write(&b, binary.BigEndian, uint16(0))
	binary.Write(&b, binary.BigEndian, uint32(0))
	binary.Write(&b, binary.BigEndian, uint32(0))
	return b.Bytes()
}

func encFrame(key uint64, idx uint32, data []byte) []byte {
	var b bytes.Buffer
	binary.Write(&b, binary.BigEndian, key)
	binary.Write(&b, binary.BigEndian, idx)
	binary.Write(&b, binary.BigEndian, uint32(len(data)))
	binary.Write(&b, binary.BigEndian, crc32.Checksum(data, crc32cTable))
	b.Write(data)
	return b.Bytes()
}

// scriptPeer plays prepared byte strings.
type scriptPeer struct {
	opens     bool     // true: the script opens the streams (sender role)
	streams   [][]byte // [0] = control
	noFin     map[int]bool
	closeConn bool
	lingerMs  int
}

type scriptResult struct {
	targetErr   error
	targetRet   bool
	outcome     verifsim.Outcome
	blocked     []string
	steps       int
	hash        uint64
	sim         time.Duration
	log         []string
	qstates     int
	panicMsg    string
	bubblePanic string
	fsLog       []verifsim.FSOp
	allocDelta  uint64
	bytesIn     int64
	endOfInput  time.Duration
	retAt       time.Duration
}

// runScript runs target (real receiver or sender) against the script.
func runScript(seed uint64, strat verifsim.Strategy, segMax int, sp scriptPeer, target func(ctx context.Context, conn Conn) error, logFS bool) (sr *scriptResult) {
	sr = &scriptResult{}
	var s *verifsim.Sched
	func() {
		defer func() {
			if r := recover(); r != nil {
				sr.bubblePanic = fmt.Sprint(r)
			}
		}()
		synctest.Test(txT, func(t *testing.T) {
			s = verifsim.New(seed, strat)
			s.FS = verifsim.NewFS()
			s.FS.LogOps = logFS
			verifsim.S = s
			verifsim.Watch(s)
			verifsim.SetName("main")
			globalSidecarFlushRegistry = sidecarFlushRegistry{}
			net := verifsim.NewNet(s, verifsim.NetCfg{SegMax: segMax})
			s.Events = net.Events
			c, sv := net.Pair("c0")
			var scriptC, targetC *verifsim.NConn = c, sv
			verifsim.SetName("T>pool")
			globalReadPoolOnce.Do(func() {})
			pool := newReadPool(2)
			globalReadPool = pool
			verifsim.SetName("main")
			ctx, cancel := context.WithCancel(context.Background())
			start := time.Now()
			var done atomic.Int32
			var mu sync.Mutex
			frozen := false
			var ms0 runtime.MemStats
			runtime.ReadMemStats(&ms0)
			verifsim.Go("T", func() {
				defer done.Add(1)
				defer func() {
					if r := recover(); r != nil {
						mu.Lock()
						if !frozen {
							sr.panicMsg = fmt.Sprint(r)
							sr.targetRet = true
						}
						mu.Unlock()
					}
				}()
				err := target(ctx, txConn{targetC})
				mu.Lock()
				if !frozen {
					sr.targetErr, sr.targetRet, sr.retAt = err, true, time.Since(start)
				}
				mu.Unlock()
			})
			var inputEnded atomic.Bool
			verifsim.Go("X", func() {
				var sts []*verifsim.NStream
				for i := range sp.streams {
					var st *verifsim.NStream
					var err error
					if sp.opens {
						st, err = scriptC.OpenStream(ctx)
					} else if i == 0 {
						st, err = scriptC.AcceptStream(ctx)
					} else {
						break
					}
					if err != nil {
						break
					}
					sts = append(sts, st)
				}
				for i, st := range sts {
					if len(sp.streams[i]) > 0 {
						if _, err := st.Write(sp.streams[i]); err != nil {
							break
						}
						sr.bytesIn += int64(len(sp.streams[i]))
					}
				}
				for i, st := range sts {
					if !sp.noFin[i] {
						st.Close()
					}
				}
				if sp.lingerMs > 0 {
					time.Sleep(time.Duration(sp.lingerMs) * time.Millisecond)
				}
				if sp.closeConn {
					scriptC.Close()
				}
				mu.Lock()
				sr.endOfInput = time.Since(start)
				mu.Unlock()
				inputEnded.Store(true)
			})
			sr.outcome = s.Run(func() bool { return done.Load() >= 1 && inputEnded.Load() }, start.Add(16*time.Minute), 0)
			sr.blocked = s.Waiting()
			mu.Lock()
			frozen = true
			mu.Unlock()
			var ms1 runtime.MemStats
			runtime.ReadMemStats(&ms1)
			sr.allocDelta = ms1.TotalAlloc - ms0.TotalAlloc
			s.Stop()
			verifsim.Watch(nil)
			cancel()
			net.Shutdown()
			for i := 0; i < 100 && done.Load() < 1; i++ {
				time.Sleep(10 * time.Second)
			}
			close(pool.jobs)
			time.Sleep(time.Second)
			sr.fsLog = s.FS.Log
		})
	}()
	verifsim.S = nil
	if s != nil {
		sr.steps, sr.hash, sr.sim, sr.log, sr.qstates = s.Steps, s.LogHash, s.Since(), s.Log, len(s.QStates)
	}
	return
}

// ---------------- C07 ----------------

type c07Item struct {
	Rel      string `json:"rel"`
	Dir      bool   `json:"dir,omitempty"`
	ID       string `json:"id"`
	Size     int    `json:"size,omitempty"`
	BeginRel string `json:"begin_rel,omitempty"` // rel path used in FileBegin ("" = Rel)
}

type c07Spec struct {
	Seed   uint64            `json:"seed"`
	Strat  verifsim.Strategy `json:"strategy"`
	Root   string            `json:"root"`
	Items  []c07Item         `json:"items"`
	NoRoot bool              `json:"no_root"`
	Resume bool              `json:"resume"`
	Chunk  uint32            `json:"chunk"`
	SegMax int               `json:"seg_max"`
}

type c07Harness struct{}

// hostile strings; "@SANDBOX@" is replaced by the absolute sandbox path
var hostilePaths = []string{
	"../esc", "../../esc2", "../decoy.txt", "../decoydir/x", "..", "a/../../esc3", "a/b/../../../esc4",
	"@SANDBOX@/abs_esc", "@SANDBOX@/decoy.txt", "/", ".", "", "./../esc5", "../out_sibling/f", "sub/../../esc6",
	"..\\esc7", "a\x00/../esc8", "../.thruflux_resumedata/x", "....//esc9", "../out/../esc10",
	"../decoydir", "../out_sibling", "../decoydir/", "x/../../out_sibling",
	// an empty element in front of the parent references
	"d//../../esc11", "d//../../../decoy.txt", "r//../..", "//../esc12", "a/b//../../../decoydir/x",
}
var hostileIDs = []string{"../../id_esc", "../id_esc2", "a/b", "@SANDBOX@/id_abs", "..", "x/../../../id_esc3", "../decoy", "../.thruflux_resumedata/decoyid"}
var benignPaths = []string{"ok.bin", "sub/ok2.bin", "a..b", "dir with space/f", "deep/er/still/f.bin"}

func (c07Harness) Gen(r *verifsim.SplitMix, tier string, idx int) any {
	sp := c07Spec{Seed: r.Next(), Root: "tree", NoRoot: r.Chance(1, 2), Resume: r.Chance(1, 2), Chunk: []uint32{64, 512, 4096}[r.Intn(3)], SegMax: []int{13, 1200, 65536}[r.Intn(3)]}
	sp.Strat = genStrategy(r, 300)
	sp.Strat.Starve = ""
	pick := func(pool []string) string { return pool[r.Intn(len(pool))] }
	// exactly one or two hostile fields per run, the rest benign
	nh := 1 + r.Intn(2)
	slots := []string{"root", "dir", "file", "id", "begin", "dirid"}
	chosen := map[string]bool{}
	for i := 0; i < nh; i++ {
		chosen[slots[r.Intn(len(slots))]] = true
	}
	if chosen["root"] {
		sp.Root = pick(hostilePaths)
	}
	nItems := 1 + r.Intn(3)
	for i := 0; i < nItems; i++ {
		it := c07Item{Rel: fmt.Sprintf("d%d/%s", i, pick(benignPaths)), ID: fmt.Sprintf("%016x", r.Next()), Size: r.Intn(3 * int(sp.Chunk))}
		if i == 0 && chosen["file"] {
			it.Rel = pick(hostilePaths)
		}
		if i == 0 && chosen["id"] {
			it.ID = pick(hostileIDs)
		}
		if i == 0 && chosen["begin"] {
			it.BeginRel = pick(hostilePaths)
		}
		sp.Items = append(sp.Items, it)
	}
	d := c07Item{Rel: "plain_dir", Dir: true, ID: fmt.Sprintf("%016x", r.Next())}
	if chosen["dir"] {
		d.Rel = pick(hostilePaths)
	}
	if chosen["dirid"] {
		d.ID = pick(hostileIDs)
	}
	sp.Items = append(sp.Items, d)
	return sp
}

func (c07Harness) Decode(raw json.RawMessage) (any, error) {
	var sp c07Spec
	err := json.Unmarshal(raw, &sp)
	return sp, err
}

func (c07Harness) Shrink(spec any) []any {
	sp := spec.(c07Spec)
	var out []any
	for i := range sp.Items {
		c := sp
		c.Items = append(append([]c07Item(nil), sp.Items[:i]...), sp.Items[i+1:]...)
		out = append(out, c)
	}
	if sp.Root != "tree" {
		c := sp
		c.Root = "tree"
		out = append(out, c)
	}
	for i, it := range sp.Items {
		c := sp
		c.Items = append([]c07Item(nil), sp.Items...)
		changed := false
		if it.BeginRel != "" {
			c.Items[i].BeginRel = ""
			changed = true
		} else if it.Size > 0 {
			c.Items[i].Size = 0
			changed = true
		}
		if changed {
			out = append(out, c)
		}
	}
	if sp.Resume {
		c := sp
		c.Resume = false
		out = append(out, c)
	}
	if sp.Strat.Kind != "fifo" || sp.Strat.StallPer != 0 {
		c := sp
		c.Strat.Kind, c.Strat.StallPer = "fifo", 0
		out = append(out, c)
	}
	return out
}

func snapshotOutside(sandbox, out string) map[string]string {
	snap := map[string]string{}
	filepath.Walk(sandbox, func(p string, info os.FileInfo, err error) error {
		if err != nil {
			return nil
		}
		if p == out {
			return filepath.SkipDir
		}
		rel, _ := filepath.Rel(sandbox, p)
		switch {
		case info.IsDir():
			snap[rel] = "dir"
		case info.Mode().IsRegular():
			b, _ := os.ReadFile(p)
			snap[rel] = fmt.Sprintf("file %d %08x", len(b), crc32.ChecksumIEEE(b))
		default:
			snap[rel] = info.Mode().String()
		}
		return nil
	})
	return snap
}

func withinDir(p, dir string) bool {
	p = filepath.Clean(p)
	dir = filepath.Clean(dir)
	return p == dir || strings.HasPrefix(p, dir+string(os.PathSeparator))
}

func (c07Harness) Run(spec any) (res verifsim.RunResult) {
	sp := spec.(c07Spec)
	res.Counters = map[string]int64{}
	runCounter++
	base := filepath.Join(scratchDir(), fmt.Sprintf("c07run%07d", runCounter))
	os.RemoveAll(base)
	defer os.RemoveAll(base)
	sandbox := filepath.Join(base, "sandbox")
	out := filepath.Join(sandbox, "out")
	os.MkdirAll(out, 0o755)
	os.MkdirAll(filepath.Join(sandbox, "decoydir"), 0o755)
	os.MkdirAll(filepath.Join(sandbox, "out_sibling"), 0o755)
	os.MkdirAll(filepath.Join(sandbox, ".thruflux_resumedata"), 0o755)
	os.WriteFile(filepath.Join(sandbox, "decoy.txt"), []byte("decoy content that must survive"), 0o644)
	os.WriteFile(filepath.Join(sandbox, "decoydir", "x"), []byte("another decoy"), 0o644)
	os.WriteFile(filepath.Join(sandbox, "out_sibling", "f"), []byte("sibling"), 0o644)
	os.WriteFile(filepath.Join(sandbox, ".thruflux_resumedata", "decoyid.sbxmap"), []byte("not a sidecar"), 0o644)
	// other downloads of the user, unfinished, next to this one: their resume metadata lives
	// in <dir>/.thruflux_resumedata/<id>.sbxmap - and a hostile sender may know (or guess) the
	// ids: every well-formed item id of this run has such a file in each neighbouring directory
	for _, it := range sp.Items {
		if len(it.ID) == 16 && !strings.ContainsAny(it.ID, "/.\\@") {
			for _, d := range []string{sandbox, filepath.Join(sandbox, "decoydir"), filepath.Join(sandbox, "out_sibling")} {
				os.MkdirAll(filepath.Join(d, ".thruflux_resumedata"), 0o755)
				os.WriteFile(filepath.Join(d, ".thruflux_resumedata", it.ID+".sbxmap"), []byte("resume metadata of another download "+it.ID), 0o644)
			}
		}
	}
	sub := func(s string) string { return strings.ReplaceAll(s, "@SANDBOX@", sandbox) }
	m := manifest.Manifest{Root: sub(sp.Root)}
	type fileData struct {
		item manifest.FileItem
		data []byte
		brel string
	}
	var files []fileData
	for _, it := range sp.Items {
		mi := manifest.FileItem{RelPath: sub(it.Rel), IsDir: it.Dir, ID: sub(it.ID), ModTime: 1700000000}
		if !it.Dir {
			mi.Size = int64(it.Size)
			m.TotalBytes += mi.Size
			m.FileCount++
			brel := mi.RelPath
			if it.BeginRel != "" {
				brel = sub(it.BeginRel)
			}
			files = append(files, fileData{item: mi, data: fileContent(sp.Seed, it.Rel, it.Size), brel: brel})
		} else {
			m.FolderCount++
		}
		m.Items = append(m.Items, mi)
	}
	var ctl bufStream
	writeControlHeader(&ctl, m)
	writeDataStreams(&ctl, DataStreams{Count: 1})
	var data bytes.Buffer
	for _, f := range files {
		key := fileKeyForItem(f.item)
		ctl.Write(encFileBegin(f.brel, uint64(f.item.Size), sp.Chunk, key, HashAlgCRC32C))
		if sp.Resume {
			writeResumeRequest(&ctl, ResumeRequest{FileID: f.item.ID, StreamID: key})
		}
		for off, idx := 0, uint32(0); off < len(f.data); off, idx = off+int(sp.Chunk), idx+1 {
			end := off + int(sp.Chunk)
			if end > len(f.data) {
				end = len(f.data)
			}
			data.Write(encFrame(key, idx, f.data[off:end]))
		}
		writeFileEnd(&ctl, FileEnd{StreamID: key})
	}
	writeControlEnd(&ctl)
	before := snapshotOutside(sandbox, out)
	script := scriptPeer{opens: true, streams: [][]byte{ctl.Bytes(), data.Bytes()}, lingerMs: 3000, closeConn: true}
	sr := runScript(sp.Seed, sp.Strat, sp.SegMax, script, func(ctx context.Context, conn Conn) error {
		_, err := RecvManifestMultiStream(ctx, conn, out, Options{Resume: sp.Resume, NoRootDir: sp.NoRoot, HashAlg: "crc32c"})
		return err
	}, true)
	after := snapshotOutside(sandbox, out)
	res.LogHash, res.Steps, res.SimTime, res.QStates = sr.hash, sr.steps, sr.sim, sr.qstates
	res.Nontrivial = sr.steps > 20
	res.Counters["fs_ops_logged"] += int64(len(sr.fsLog))
	if sr.targetErr == nil && sr.targetRet {
		res.Counters["receiver_accepted"]++
	} else {
		res.Counters["receiver_rejected"]++
	}
	res.Sample = map[string]any{"spec": sp, "receiver": errStr(sr.targetErr)}
	v := func(class, sig, detail string) {
		for _, x := range res.Violations {
			if x.Class == class && x.Signature == sig {
				return
			}
		}
		res.Violations = append(res.Violations, &verifsim.Violation{Class: class, Signature: sig, Detail: detail, LogHash: verifsim.HashStr(sr.hash), Steps: sr.steps, Trace: sr.log})
	}
	if sr.bubblePanic != "" && !strings.Contains(sr.bubblePanic, "deadlock: main bubble goroutine has exited") {
		v("harness-panic", firstLine(sr.bubblePanic), sr.bubblePanic)
		return
	}
	field := c07Field(sp)
	var changed []string
	for k, a := range after {
		if b, ok := before[k]; !ok {
			changed = append(changed, "created "+k)
		} else if a != b {
			changed = append(changed, "modified "+k)
		}
	}
	for k := range before {
		if _, ok := after[k]; !ok {
			changed = append(changed, "deleted "+k)
		}
	}
	sort.Strings(changed)
	if len(changed) > 0 {
		v("escaped-output-dir", field, fmt.Sprintf("hostile field(s) %s: entries outside the output directory changed: %v", field, changed))
	}
	for _, op := range sr.fsLog {
		if !op.Mut || op.Node != "T" || strings.Contains(op.Kind, "!") {
			continue
		}
		p := op.Path
		if op.Kind == "rename" {
			p = op.Path2
		}
		if !filepath.IsAbs(p) {
			v("escaped-output-dir", field+":relative-path-op", fmt.Sprintf("%s on relative path %q", op.Kind, p))
			continue
		}
		if !withinDir(p, out) {
			if op.Kind == "mkdirall" {
				if _, existed := before[mustRel(sandbox, p)]; existed || filepath.Clean(p) == filepath.Clean(sandbox) {
					continue // MkdirAll of an existing directory creates nothing
				}
			}
			v("escaped-output-dir", field+":op-outside", fmt.Sprintf("hostile field(s) %s: %s %s (outside %s)", field, op.Kind, p, out))
		}
	}
	return
}

func mustRel(base, p string) string {
	r, err := filepath.Rel(base, filepath.Clean(p))
	if err != nil {
		return p
	}
	return r
}

func isHostile(s string, pool []string) bool {
	for _, h := range pool {
		if s == h {
			return true
		}
	}
	return false
}

// c07Field names which manifest fields carried hostile content.
func c07Field(sp c07Spec) string {
	var fs []string
	if isHostile(sp.Root, hostilePaths) {
		fs = append(fs, "manifest.root")
	}
	for _, it := range sp.Items {
		if isHostile(it.Rel, hostilePaths) {
			if it.Dir {
				fs = append(fs, "dir.rel_path")
			} else {
				fs = append(fs, "file.rel_path")
			}
		}
		if isHostile(it.ID, hostileIDs) {
			fs = append(fs, "item.id")
		}
		if it.BeginRel != "" {
			fs = append(fs, "FileBegin.rel_path")
		}
	}
	sort.Strings(fs)
	var uniq []string
	for i, f := range fs {
		if i == 0 || fs[i-1] != f {
			uniq = append(uniq, f)
		}
	}
	if len(uniq) == 0 {
		return "none"
	}
	return strings.Join(uniq, "+")
}

// ---------------- C15 ----------------

type c15Mut struct {
	Stream int    `json:"stream"` // index into the script's streams
	Kind   string `json:"kind"`   // trunc byte u32max u32zero u16max dup drop ins type magic
	Pos    int    `json:"pos"`    // per-mille of the stream length (or record ordinal for "type")
	Val    int    `json:"val"`
}

type c15Spec struct {
	Base      txSpec   `json:"base"`
	Target    string   `json:"target"` // recv | send
	Muts      []c15Mut `json:"mutations"`
	CloseConn bool     `json:"close_conn"`
	LingerMs  int      `json:"linger_ms"`
}

type c15Harness struct{}

var c15Kinds = []string{"trunc", "trunc", "byte", "byte", "u32max", "u32max", "u32zero", "u16max", "dup", "drop", "ins", "type", "magic", "lenfield", "lenfield", "resumeinfo", "resumeinfo", "frame", "frame", "frame", "manifestnum", "insrecord", "insrecord", "replayfile"}

// c15Begins: the FileBegin records of the recorded run (context for the "frame" mutations).
var c15Begins []wBegin

func (c15Harness) Gen(r *verifsim.SplitMix, tier string, idx int) any {
	b := txSpec{Prop: "C15", Seed: r.Next(), ContentSeed: r.Next()}
	b.Chunk = []uint32{64, 256, 1024}[r.Intn(3)]
	b.Streams = 1 + r.Intn(2)
	b.Conns = 1
	b.ResumeS, b.ResumeR = true, r.Chance(1, 2)
	b.Hash = "crc32c"
	b.NoRoot = true
	b.Scan = "root"
	b.SenderCli = true
	b.SegMax = []int{7, 200, 65536}[r.Intn(3)]
	nf := 1 + r.Intn(3)
	for i := 0; i < nf; i++ {
		n := r.Intn(3*int(b.Chunk) + 1)
		if r.Chance(1, 3) {
			n = (9 + r.Intn(12)) * 64 // enough chunks for multi-byte bitmaps
			b.Chunk = 64
		} else if r.Chance(1, 5) {
			n = 0 // an empty file: no frame may ever name it
		}
		b.Files = append(b.Files, txFile{P: fmt.Sprintf("f%d.bin", i), N: n})
	}
	b.Strat = verifsim.Strategy{Kind: []string{"rand", "fifo", "weighted"}[r.Intn(3)], Seed: r.Next(), MaxW: 6}
	sp := c15Spec{Base: b, Target: []string{"recv", "recv", "send"}[r.Intn(3)], CloseConn: r.Chance(1, 2), LingerMs: []int{0, 500, 3000}[r.Intn(3)]}
	if idx%397 == 3 {
		// dedicated scenario for the listed finding (peer-chosen chunk size allocated up
		// front): a one-chunk file whose FileBegin announces a chunk size near 4 GiB
		sp.Base.Chunk, sp.Base.Streams = 64, 1
		sp.Base.Files = []txFile{{P: "f0.bin", N: 64}}
		sp.Target = "recv"
		sp.Muts = []c15Mut{{Stream: 0, Kind: "lenfield", Pos: 0, Val: 12}}
		return sp
	}
	nm := 1
	if r.Chance(1, 4) {
		nm = 2
	}
	for i := 0; i < nm; i++ {
		pos := r.Intn(1001)
		if r.Chance(1, 3) {
			pos = r.Intn(60) // early bytes: headers and announcements
		}
		mu := c15Mut{Stream: r.Intn(3), Kind: c15Kinds[r.Intn(len(c15Kinds))], Pos: pos, Val: r.Intn(1 << 16)}
		if mu.Kind == "frame" {
			mu.Stream = 1 // the first data stream
		}
		if mu.Kind == "manifestnum" || mu.Kind == "insrecord" {
			mu.Stream = 0
		}
		sp.Muts = append(sp.Muts, mu)
	}
	return sp
}

func (c15Harness) Decode(raw json.RawMessage) (any, error) {
	var sp c15Spec
	err := json.Unmarshal(raw, &sp)
	return sp, err
}

func (c15Harness) Shrink(spec any) []any {
	sp := spec.(c15Spec)
	var out []any
	for i := range sp.Muts {
		c := sp
		c.Muts = append(append([]c15Mut(nil), sp.Muts[:i]...), sp.Muts[i+1:]...)
		if len(c.Muts) > 0 {
			out = append(out, c)
		}
	}
	for i := range sp.Base.Files {
		if len(sp.Base.Files) > 1 {
			c := sp
			c.Base = cloneSpec(sp.Base)
			c.Base.Files = append(c.Base.Files[:i], c.Base.Files[i+1:]...)
			out = append(out, c)
		}
	}
	if sp.Base.Streams > 1 {
		c := sp
		c.Base = cloneSpec(sp.Base)
		c.Base.Streams = 1
		out = append(out, c)
	}
	if sp.Base.SegMax != 65536 {
		c := sp
		c.Base = cloneSpec(sp.Base)
		c.Base.SegMax = 65536
		out = append(out, c)
	}
	if sp.LingerMs != 0 {
		c := sp
		c.LingerMs = 0
		out = append(out, c)
	}
	if sp.Base.Strat.Kind != "fifo" {
		c := sp
		c.Base = cloneSpec(sp.Base)
		c.Base.Strat.Kind = "fifo"
		out = append(out, c)
	}
	return out
}

// recordBoundaries returns the start offsets of the control records in a
// sender (withHeader) or receiver control stream.
func recordBoundaries(b []byte, withHeader bool) []int64 {
	ps := &posStream{r: bytes.NewReader(b)}
	var offs []int64
	if withHeader {
		if _, err := readControlHeader(ps); err != nil {
			return offs
		}
	}
	for ps.r.Len() > 0 {
		at := ps.pos()
		if _, _, err := readControlMessage(ps); err != nil {
			break
		}
		offs = append(offs, at)
	}
	return offs
}

func applyMut(b []byte, m c15Mut, isControl, withHeader bool, r *verifsim.SplitMix) ([]byte, string) {
	if len(b) == 0 {
		return b, ""
	}
	pos := m.Pos
	if pos <= 60 && m.Pos < 60 {
		// absolute early offset
	} else {
		pos = (len(b) - 1) * m.Pos / 1000
	}
	if pos >= len(b) {
		pos = len(b) - 1
	}
	out := append([]byte(nil), b...)
	put := func(n int, v byte) {
		for i := 0; i < n && pos+i < len(out); i++ {
			out[pos+i] = v
		}
	}
	switch m.Kind {
	case "trunc":
		return out[:pos], "trunc"
	case "byte":
		v := []byte{0x00, 0xFF, out[pos] + 1, out[pos] - 1, byte(m.Val)}[m.Val%5]
		out[pos] = v
		return out, "byte"
	case "u32max":
		put(4, 0xFF)
		return out, "u32max"
	case "u32zero":
		put(4, 0x00)
		return out, "u32zero"
	case "u16max":
		put(2, 0xFF)
		return out, "u16max"
	case "dup":
		n := 1 + m.Val%64
		if pos+n > len(out) {
			n = len(out) - pos
		}
		seg := append([]byte(nil), out[pos:pos+n]...)
		return append(out[:pos+n], append(seg, b[pos+n:]...)...), "dup"
	case "drop":
		n := 1 + m.Val%64
		if pos+n > len(out) {
			n = len(out) - pos
		}
		return append(out[:pos], b[pos+n:]...), "drop"
	case "ins":
		n := 1 + m.Val%32
		junk := make([]byte, n)
		for i := range junk {
			junk[i] = byte(r.Next())
		}
		return append(out[:pos], append(junk, b[pos:]...)...), "ins"
	case "type":
		if !isControl {
			return out, ""
		}
		offs := recordBoundaries(b, withHeader)
		if len(offs) == 0 {
			return out, ""
		}
		o := offs[m.Pos%len(offs)]
		out[o] = []byte{0x7E, 0x00, 0x11, 0x16, 0x13, 0x14, 0x10, 0xFF}[m.Val%8]
		return out, "type"
	case "magic":
		out[m.Val%4%len(out)] ^= 0x20
		return out, "magic"
	case "resumeinfo":
		// a well-formed FileResumeInfo whose counts are inconsistent
		if !isControl || withHeader {
			return out, ""
		}
		for _, o := range recordBoundaries(b, false) {
			if b[o] != controlTypeFileResumeInfo || int(o)+3 > len(b) {
				continue
			}
			idl := int(b[o+1])<<8 | int(b[o+2])
			tot := int(o) + 3 + idl + 8 // TotalChunks
			bl := tot + 4              // bitmap length
			if bl+4 > len(b) {
				break
			}
			n := int(b[bl])<<24 | int(b[bl+1])<<16 | int(b[bl+2])<<8 | int(b[bl+3])
			bm := bl + 4
			if bm+n > len(b) {
				break
			}
			put32 := func(at, v int) { out[at], out[at+1], out[at+2], out[at+3] = byte(v>>24), byte(v>>16), byte(v>>8), byte(v) }
			switch m.Val % 5 {
			case 0: // bitmap one byte short
				if n < 2 {
					continue
				}
				put32(bl, n-1)
				return append(out[:bm+n-1], b[bm+n:]...), "resumeinfo:short-bitmap"
			case 1: // bitmap one byte long
				put32(bl, n+1)
				return append(out[:bm+n], append([]byte{0xFF}, b[bm+n:]...)...), "resumeinfo:long-bitmap"
			case 2: // more chunks announced than the bitmap covers
				put32(tot, 0x00FFFFFF)
				return out, "resumeinfo:total-chunks"
			case 3: // verified chunk far out of range, every bit set
				for i := 0; i < n; i++ {
					out[bm+i] = 0xFF
				}
				put32(bm+n, 0x7FFFFFFF)
				return out, "resumeinfo:verified-out-of-range"
			case 4: // all chunks claimed present
				for i := 0; i < n; i++ {
					out[bm+i] = 0xFF
				}
				return out, "resumeinfo:all-present"
			}
		}
		return out, ""
	case "insrecord":
		// a record the recorded run never contains, inserted at a record boundary: every
		// control type with a 32-bit count / id / length field set to a value chosen to
		// wrap in 32-bit products (x*12, x*8, x*4), followed by a few bytes of body
		if !isControl {
			return out, ""
		}
		offs := recordBoundaries(b, withHeader)
		if len(offs) == 0 {
			return out, ""
		}
		at := int(offs[m.Pos%len(offs)])
		typ := []byte{0x16, 0x16, 0x11, 0x15, 0x12, 0x13, 0x14, 0x17, 0x10}[m.Val%9]
		cnt := []uint32{0x15555556, 0x20000000, 0x80000000, 0xFFFFFFFF, 0x40000001, 3, 0, 0x2AAAAAAB}[m.Val/9%8]
		rec := []byte{typ}
		rec = binary.BigEndian.AppendUint32(rec, cnt)
		for i, n := 0, m.Val/72%25; i < n; i++ {
			rec = append(rec, byte(r.Next()))
		}
		res := append([]byte(nil), b[:at]...)
		res = append(res, rec...)
		res = append(res, b[at:]...)
		return res, fmt.Sprintf("insrecord:0x%02x", typ)
	case "manifestnum":
		// the manifest stays well-formed JSON with a correct length prefix; one of its
		// numbers is absurd (counts and sizes are the peer's claims, not facts)
		if !isControl || !withHeader || len(b) < 8 {
			return out, ""
		}
		n := int(binary.BigEndian.Uint32(b[4:8]))
		if 8+n > len(b) {
			return out, ""
		}
		var mm map[string]any
		if json.Unmarshal(b[8:8+n], &mm) != nil {
			return out, ""
		}
		field := []string{"file_count", "folder_count", "total_bytes", "file_count"}[m.Val%4]
		val := []int64{500000, 300000000, -1, 1 << 40}[m.Val/4%4]
		mm[field] = val
		js, err := json.Marshal(mm)
		if err != nil {
			return out, ""
		}
		res := append([]byte(nil), b[:4]...)
		res = binary.BigEndian.AppendUint32(res, uint32(len(js)))
		res = append(res, js...)
		res = append(res, b[8+n:]...)
		return res, "manifestnum:" + field
	case "frame":
		// well-formed chunk frames (valid checksum) that do not fit the announced file
		if isControl || len(c15Begins) == 0 {
			return out, ""
		}
		mk := func(key uint64, idx uint32, payload []byte) []byte {
			f := make([]byte, dataChunkHeaderLen+len(payload))
			binary.BigEndian.PutUint64(f[0:8], key)
			binary.BigEndian.PutUint32(f[8:12], idx)
			binary.BigEndian.PutUint32(f[12:16], uint32(len(payload)))
			binary.BigEndian.PutUint32(f[16:20], crc32.Checksum(payload, crc32cTable))
			copy(f[dataChunkHeaderLen:], payload)
			return f
		}
		junk := func(n int) []byte {
			j := make([]byte, n)
			for i := range j {
				j[i] = byte(r.Next())
			}
			return j
		}
		switch m.Val % 5 {
		case 0: // data for a file announced with size 0
			for _, b0 := range c15Begins {
				if b0.FileSize == 0 {
					idx := uint32([]int{0, 3}[m.Val/5%2])
					return append(mk(b0.StreamID, idx, junk(1)), out...), "frame:data-for-empty-file"
				}
			}
		case 1, 2, 3, 4:
			// walk the frames of this stream; replace one payload by a longer / shorter one
			type fr struct{ off, n int; key uint64; idx uint32 }
			var frames []fr
			for off := 0; off+dataChunkHeaderLen <= len(b); {
				n := int(binary.BigEndian.Uint32(b[off+12 : off+16]))
				if off+dataChunkHeaderLen+n > len(b) {
					break
				}
				frames = append(frames, fr{off, n, binary.BigEndian.Uint64(b[off : off+8]), binary.BigEndian.Uint32(b[off+8 : off+12])})
				off += dataChunkHeaderLen + n
			}
			if len(frames) == 0 {
				return out, ""
			}
			f := frames[m.Pos%len(frames)]
			var cs uint32
			for _, b0 := range c15Begins {
				if b0.StreamID == f.key {
					cs = b0.ChunkSize
				}
			}
			if cs == 0 {
				return out, ""
			}
			var repl []byte
			kind := ""
			switch {
			case m.Val%5 == 1 && uint32(f.n) < cs: // the (short) last chunk sent at full chunk size: writes past the end of the file
				repl, kind = mk(f.key, f.idx, append(append([]byte(nil), b[f.off+dataChunkHeaderLen:f.off+dataChunkHeaderLen+f.n]...), junk(int(cs)-f.n)...)), "frame:overlong-last-chunk"
			case m.Val%5 == 2 && f.n > 1: // a chunk shorter than its place in the file
				repl, kind = mk(f.key, f.idx, b[f.off+dataChunkHeaderLen:f.off+dataChunkHeaderLen+f.n/2]), "frame:short-chunk"
			case m.Val%5 == 4 && len(frames) > 1: // the same chunk twice in a row (an honest sender repeats a chunk only after a failed resume verification)
				one := b[f.off : f.off+dataChunkHeaderLen+f.n]
				repl, kind = append(append([]byte(nil), one...), one...), "frame:duplicate"
			case m.Val%5 == 3: // same bytes, an index beyond the file
				repl, kind = mk(f.key, f.idx+1000, b[f.off+dataChunkHeaderLen:f.off+dataChunkHeaderLen+f.n]), "frame:index-beyond-file"
			}
			if kind == "" {
				return out, ""
			}
			res := append([]byte(nil), b[:f.off]...)
			res = append(res, repl...)
			res = append(res, b[f.off+dataChunkHeaderLen+f.n:]...)
			return res, kind
		}
		return out, ""
	case "lenfield":
		// absurd values in the length-bearing fields of the first records / frames
		if isControl && withHeader && len(out) >= 8 && m.Val%3 != 0 {
			copy(out[4:8], []byte{0xFF, 0xFF, 0xFF, byte(m.Val)})
			return out, "lenfield:manifest"
		}
		if isControl && withHeader {
			// chunk size / file size of the first FileBegin
			for _, o := range recordBoundaries(b, true) {
				if b[o] != controlTypeFileBegin || int(o)+3 > len(b) {
					continue
				}
				pl := int(b[o+1])<<8 | int(b[o+2])
				fs := int(o) + 3 + pl
				if fs+12 > len(out) {
					break
				}
				if m.Val%4 == 2 {
					copy(out[fs+8:fs+12], []byte{0, 0, 0, 0})
					return out, "lenfield:chunksize0"
				}
				if m.Val%2 == 0 {
					copy(out[fs+8:fs+12], []byte{0xFF, 0xFF, 0xFF, byte(m.Val)})
					return out, "lenfield:chunksize"
				}
				copy(out[fs:fs+8], []byte{0, 0, 0xFF, 0xFF, 0xFF, 0xFF, 0xFF, byte(m.Val)})
				return out, "lenfield:filesize"
			}
		}
		if !isControl && len(out) >= 16 {
			off := 8
			if m.Val%2 == 0 {
				off = 12
			}
			copy(out[off:off+4], []byte{0xFF, 0xFF, 0xFF, byte(m.Val)})
			return out, "lenfield:frame"
		}
		if isControl && len(out) >= 3 {
			put(3, 0xFF)
			return out, "lenfield:record"
		}
	}
	return out, ""
}

// replayFileTranscript rewrites a recorded sender transcript (control stream first, then
// the data streams) so that the first announced file is sent twice and the last one never.
func replayFileTranscript(streams [][]byte, recvTarget bool) ([][]byte, bool) {
	if !recvTarget || len(streams) < 2 {
		return nil, false
	}
	ctl := streams[0]
	offs := recordBoundaries(ctl, true)
	type rec struct {
		typ      byte
		key      uint64
		from, to int
	}
	var recs []rec
	for i, o := range offs {
		end := len(ctl)
		if i+1 < len(offs) {
			end = int(offs[i+1])
		}
		r := rec{typ: ctl[o], from: int(o), to: end}
		ps := &posStream{r: bytes.NewReader(ctl[o:end])}
		if _, msg, err := readControlMessage(ps); err == nil {
			switch mm := msg.(type) {
			case FileBegin:
				r.key = mm.StreamID
			case FileEnd:
				r.key = mm.StreamID
			case ResumeRequest:
				r.key = mm.StreamID
			}
		}
		recs = append(recs, r)
	}
	var keys []uint64
	for _, r := range recs {
		if r.typ == controlTypeFileBegin {
			keys = append(keys, r.key)
		}
	}
	if len(keys) < 2 {
		return nil, false
	}
	a, b := keys[0], keys[len(keys)-1]
	if a == b {
		return nil, false
	}
	out := append([]byte(nil), ctl[:offs[0]]...)
	var again []byte
	for _, r := range recs {
		switch {
		case (r.typ == controlTypeFileBegin || r.typ == controlTypeFileEnd || r.typ == controlTypeResumeRequest) && r.key == b:
			continue // never announced
		case r.typ == controlTypeEnd:
			out = append(out, again...)
			out = append(out, ctl[r.from:r.to]...)
		default:
			out = append(out, ctl[r.from:r.to]...)
			if (r.typ == controlTypeFileBegin || r.typ == controlTypeFileEnd) && r.key == a {
				again = append(again, ctl[r.from:r.to]...)
			}
		}
	}
	ns := [][]byte{out}
	for _, d := range streams[1:] {
		var keep, dup []byte
		for off := 0; off+dataChunkHeaderLen <= len(d); {
			n := int(binary.BigEndian.Uint32(d[off+12 : off+16]))
			end := off + dataChunkHeaderLen + n
			if end > len(d) {
				break
			}
			switch binary.BigEndian.Uint64(d[off : off+8]) {
			case b:
			case a:
				keep = append(keep, d[off:end]...)
				dup = append(dup, d[off:end]...)
			default:
				keep = append(keep, d[off:end]...)
			}
			off = end
		}
		ns = append(ns, append(keep, dup...))
	}
	return ns, true
}

func (c15Harness) Run(spec any) (res verifsim.RunResult) {
	sp := spec.(c15Spec)
	res.Counters = map[string]int64{}
	src, out, cleanup := newRunDirs()
	defer cleanup()
	if err := writeTree(src, sp.Base.ContentSeed, sp.Base.Files, sp.Base.Dirs); err != nil {
		res.Skipped = true
		return
	}
	rec := runEpisode(epCfg{sp: &sp.Base, seed: sp.Base.Seed, src: src, out: out, faultFree: true})
	if rec.outcome != verifsim.Finished || rec.sendErr != nil || rec.recvErr != nil {
		res.Skipped = true
		res.Counters["recording_not_clean"]++
		return
	}
	// the recorded transcript
	var dataKeys []string
	for k := range rec.wire.streams {
		if k != rec.sCtlKey && k != rec.rCtlKey && senderSide(k, sp.Base.SenderCli) {
			dataKeys = append(dataKeys, k)
		}
	}
	sort.Slice(dataKeys, func(i, j int) bool { return rec.wire.streams[dataKeys[i]].id < rec.wire.streams[dataKeys[j]].id })
	var streams [][]byte
	if sp.Target == "recv" {
		streams = append(streams, rec.wire.streams[rec.sCtlKey].buf)
		for _, k := range dataKeys {
			streams = append(streams, rec.wire.streams[k].buf)
		}
	} else {
		ws := rec.wire.streams[rec.rCtlKey]
		if ws == nil {
			res.Skipped = true
			return
		}
		streams = append(streams, ws.buf)
	}
	mr := verifsim.NewSplitMix(sp.Base.Seed ^ 0xC15)
	c15Begins = rec.sw.begins
	var applied []string
	for _, m := range sp.Muts {
		if m.Kind == "replayfile" {
			// one file of the manifest is announced, sent and ended twice, another one never:
			// the counts add up, the tree does not (a mutation across the control stream and
			// the data streams)
			if ns, ok := replayFileTranscript(streams, sp.Target == "recv"); ok {
				streams = ns
				applied = append(applied, "replayfile")
				res.Counters["mutation:replayfile"]++
			}
			continue
		}
		i := m.Stream % len(streams)
		nb, k := applyMut(streams[i], m, i == 0, sp.Target == "recv", mr)
		if k != "" {
			streams[i] = nb
			applied = append(applied, k)
			res.Counters["mutation:"+k]++
		}
	}
	if len(applied) == 0 {
		res.Skipped = true
		return
	}
	os.RemoveAll(out)
	os.MkdirAll(out, 0o755)
	m := rec.manifest
	script := scriptPeer{opens: sp.Target == "recv", streams: streams, lingerMs: sp.LingerMs, closeConn: sp.CloseConn}
	var target func(ctx context.Context, conn Conn) error
	if sp.Target == "recv" {
		target = func(ctx context.Context, conn Conn) error {
			_, err := RecvManifestMultiStream(ctx, conn, out, Options{Resume: sp.Base.ResumeR, NoRootDir: true, HashAlg: "crc32c"})
			return err
		}
	} else {
		target = func(ctx context.Context, conn Conn) error {
			return SendManifestMultiStream(ctx, conn, src, m, Options{ChunkSize: sp.Base.Chunk, ParallelFiles: sp.Base.Streams, Resume: true, HashAlg: "crc32c"})
		}
	}
	sr := runScript(sp.Base.Seed^0x5C, sp.Base.Strat, sp.Base.SegMax, script, target, false)
	res.LogHash, res.Steps, res.SimTime, res.QStates = sr.hash, sr.steps, sr.sim, sr.qstates
	res.Nontrivial = sr.steps > 10
	res.Counters["target_"+sp.Target]++
	if sr.targetRet && sr.targetErr == nil {
		res.Counters["target_returned_nil"]++
	} else if sr.targetRet {
		res.Counters["target_returned_error"]++
	}
	res.Sample = map[string]any{"spec": sp, "mutations_applied": applied, "target_result": errStr(sr.targetErr), "returned": sr.targetRet, "bytes_in": sr.bytesIn, "alloc_delta": sr.allocDelta}
	v := func(class, sig, detail string) {
		res.Violations = append(res.Violations, &verifsim.Violation{Class: class, Signature: sig, Detail: detail, LogHash: verifsim.HashStr(sr.hash), Steps: sr.steps, Trace: sr.log})
	}
	if sr.bubblePanic != "" && !strings.Contains(sr.bubblePanic, "deadlock: main bubble goroutine has exited") {
		v("harness-panic", firstLine(sr.bubblePanic), sr.bubblePanic)
		return
	}
	if sr.panicMsg != "" {
		v("panic", sp.Target+":"+panicSig(sr.panicMsg), fmt.Sprintf("%s panicked on malformed input (%v): %s", sp.Target, applied, sr.panicMsg))
		return
	}
	if sr.outcome != verifsim.Finished || !sr.targetRet {
		site := "?"
		for _, b := range sr.blocked {
			if strings.HasPrefix(b, "T@") {
				site = b[2:]
			}
		}
		v("blocked-after-end-of-input", sp.Target+":T@"+site, fmt.Sprintf("%s still blocked %v (simulated) after the input ended (mutations %v, close_conn=%v): %v", sp.Target, sr.sim-sr.endOfInput, applied, sp.CloseConn, sr.blocked))
		return
	}
	limit := uint64(64*sr.bytesIn) + 48<<20
	if sr.allocDelta > limit {
		cause := strings.Join(applied, "+")
		for _, a := range applied {
			if a == "lenfield:chunksize" {
				cause = "chunk-size-from-FileBegin"
			}
		}
		v("memory-out-of-proportion", sp.Target+":"+cause+":"+allocSig(sr.allocDelta), fmt.Sprintf("%s allocated %d bytes while %d bytes were received (mutations %v)", sp.Target, sr.allocDelta, sr.bytesIn, applied))
	}
	onlyData := true
	for _, m := range sp.Muts {
		if m.Stream%len(streams) == 0 || m.Kind == "replayfile" {
			onlyData = false // a changed control record or manifest is a different, well-formed request
		}
	}
	if sp.Target == "recv" && sr.targetErr == nil {
		// whatever was altered: a receiver that reports success holds every file of the manifest
		// it was given (the one in the header it read), at the announced length
		if ps := (&posStream{r: bytes.NewReader(streams[0])}); true {
			if mm, err := readControlHeader(ps); err == nil {
				for _, it := range mm.Items {
					if it.IsDir {
						continue
					}
					fi, err := os.Stat(filepath.Join(out, filepath.FromSlash(it.RelPath)))
					if err != nil || fi.Size() != it.Size {
						v("success-with-missing-file", strings.Join(applied, "+"), fmt.Sprintf("receiver reported success after mutated input (%v) but manifest file %s (%d bytes) is missing or has another length (%v)", applied, it.RelPath, it.Size, err))
						break
					}
				}
			}
		}
	}
	if sp.Target == "recv" && sr.targetErr == nil && onlyData {
		want := expectedDigest("", sp.Base.ContentSeed, sp.Base.Files, sp.Base.Dirs)
		got, _ := digestTree(out, out)
		if d := diffDigests(want, got); d != "" {
			v("success-with-wrong-tree", strings.Join(applied, "+")+":"+treeDiffSig(want, got), fmt.Sprintf("receiver accepted mutated input (%v) and reported success with a different tree: %s", applied, d))
		}
	}
	return
}

func panicSig(p string) string {
	p = firstLine(p)
	for _, pat := range []string{"index out of range", "slice bounds out of range", "nil pointer", "makeslice", "send on closed channel", "close of closed channel", "negative"} {
		if strings.Contains(p, pat) {
			return pat
		}
	}
	if len(p) > 50 {
		p = p[:50]
	}
	return p
}

func allocSig(n uint64) string {
	switch {
	case n >= 1<<30:
		return ">=1GiB"
	case n >= 256<<20:
		return ">=256MiB"
	}
	return ">=48MiB"
}
