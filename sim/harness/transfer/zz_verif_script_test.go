package transfer

// Scripted (byzantine) peers over SimNet: C07 (receiver confinement) and C15
// (malformed input => error, no crash, no hang, bounded memory).

import (
	"bytes"
	"context"
	"encoding/binary"
	"encoding/json"
	"fmt"
	"hash/crc32"
	"os"
	"path/filepath"
	"runtime"
	"sort"
	"strings"
	"sync"
	"sync/atomic"
	"testing"
	"testing/synctest"
	"time"

	"github.com/sheerbytes/sheerbytes/internal/verifsim"
	"github.com/sheerbytes/sheerbytes/pkg/manifest"
)

type bufStream struct{ bytes.Buffer }

func (b *bufStream) Close() error { return nil }

func encFileBegin(rel string, size uint64, chunk uint32, key uint64, hash byte) []byte {
	var b bytes.Buffer
	b.WriteByte(controlTypeFileBegin)
	binary.Write(&b, binary.BigEndian, uint16(len(rel)))
	b.WriteString(rel)
	binary.Write(&b, binary.BigEndian, size)
	binary.Write(&b, binary.BigEndian, chunk)
	binary.Write(&b, binary.BigEndian, key)
	b.WriteByte(hash)
	binary.Write(&b, binary.BigEndian, uint16(0))
	binary.Write(&b, binary.BigEndian, uint16(0))
	binary.Write(&b, binary.BigEndian, uint32(0))
	binary.Write(&b, binary.BigEndian, uint32(0))
	return b.Bytes()
}

func encFrame(key uint64, idx uint32, data []byte) []byte {
	var b bytes.Buffer
	binary.Write(&b, binary.BigEndian, key)
	binary.Write(&b, binary.BigEndian, idx)
	binary.Write(&b, binary.BigEndian, uint32(len(data)))
	binary.Write(&b, binary.BigEndian, crc32.Checksum(data, crc32cTable))
	b.Write(data)
	return b.Bytes()
}

// scriptPeer plays prepared byte strings.
type scriptPeer struct {
	opens    bool     // true: the script opens the streams (sender role)
	streams  [][]byte // [0] = control
	noFin    map[int]bool
	closeConn bool
	lingerMs int
}

type scriptResult struct {
	targetErr   error
	targetRet   bool
	outcome     verifsim.Outcome
	blocked     []string
	steps       int
	hash        uint64
	sim         time.Duration
	log         []string
	qstates     int
	panicMsg    string
	bubblePanic string
	fsLog       []verifsim.FSOp
	allocDelta  uint64
	bytesIn     int64
	endOfInput  time.Duration
	retAt       time.Duration
}

// runScript runs target (real receiver or sender) against the script.
func runScript(seed uint64, strat verifsim.Strategy, segMax int, sp scriptPeer, target func(ctx context.Context, conn Conn) error, logFS bool) (sr *scriptResult) {
	sr = &scriptResult{}
	var s *verifsim.Sched
	func() {
		defer func() {
			if r := recover(); r != nil {
				sr.bubblePanic = fmt.Sprint(r)
			}
		}()
		synctest.Test(txT, func(t *testing.T) {
			s = verifsim.New(seed, strat)
			s.FS = verifsim.NewFS()
			s.FS.LogOps = logFS
			verifsim.S = s
			verifsim.Watch(s)
			verifsim.SetName("main")
			globalSidecarFlushRegistry = sidecarFlushRegistry{}
			net := verifsim.NewNet(s, verifsim.NetCfg{SegMax: segMax})
			s.Events = net.Events
			c, sv := net.Pair("c0")
			var scriptC, targetC *verifsim.NConn = c, sv
			verifsim.SetName("T>pool")
			globalReadPoolOnce.Do(func() {})
			pool := newReadPool(2)
			globalReadPool = pool
			verifsim.SetName("main")
			ctx, cancel := context.WithCancel(context.Background())
			start := time.Now()
			var done atomic.Int32
			var mu sync.Mutex
			frozen := false
			var ms0 runtime.MemStats
			runtime.ReadMemStats(&ms0)
			verifsim.Go("T", func() {
				defer done.Add(1)
				defer func() {
					if r := recover(); r != nil {
						mu.Lock()
						if !frozen {
							sr.panicMsg = fmt.Sprint(r)
							sr.targetRet = true
						}
						mu.Unlock()
					}
				}()
				err := target(ctx, txConn{targetC})
				mu.Lock()
				if !frozen {
					sr.targetErr, sr.targetRet, sr.retAt = err, true, time.Since(start)
				}
				mu.Unlock()
			})
			var inputEnded atomic.Bool
			verifsim.Go("X", func() {
				var sts []*verifsim.NStream
				for i := range sp.streams {
					var st *verifsim.NStream
					var err error
					if sp.opens {
						st, err = scriptC.OpenStream(ctx)
					} else if i == 0 {
						st, err = scriptC.AcceptStream(ctx)
					} else {
						break
					}
					if err != nil {
						break
					}
					sts = append(sts, st)
				}
				for i, st := range sts {
					if len(sp.streams[i]) > 0 {
						if _, err := st.Write(sp.streams[i]); err != nil {
							break
						}
						sr.bytesIn += int64(len(sp.streams[i]))
					}
				}
				for i, st := range sts {
					if !sp.noFin[i] {
						st.Close()
					}
				}
				if sp.lingerMs > 0 {
					time.Sleep(time.Duration(sp.lingerMs) * time.Millisecond)
				}
				if sp.closeConn {
					scriptC.Close()
				}
				mu.Lock()
				sr.endOfInput = time.Since(start)
				mu.Unlock()
				inputEnded.Store(true)
			})
			sr.outcome = s.Run(func() bool { return done.Load() >= 1 && inputEnded.Load() }, start.Add(16*time.Minute), 0)
			sr.blocked = s.Waiting()
			mu.Lock()
			frozen = true
			mu.Unlock()
			var ms1 runtime.MemStats
			runtime.ReadMemStats(&ms1)
			sr.allocDelta = ms1.TotalAlloc - ms0.TotalAlloc
			s.Stop()
			verifsim.Watch(nil)
			cancel()
			net.Shutdown()
			for i := 0; i < 100 && done.Load() < 1; i++ {
				time.Sleep(10 * time.Second)
			}
			close(pool.jobs)
			time.Sleep(time.Second)
			sr.fsLog = s.FS.Log
		})
	}()
	verifsim.S = nil
	if s != nil {
		sr.steps, sr.hash, sr.sim, sr.log, sr.qstates = s.Steps, s.LogHash, s.Since(), s.Log, len(s.QStates)
	}
	return
}

// ---------------- C07 ----------------

type c07Item struct {
	Rel      string `json:"rel"`
	Dir      bool   `json:"dir,omitempty"`
	ID       string `json:"id"`
	Size     int    `json:"size,omitempty"`
	BeginRel string `json:"begin_rel,omitempty"` // rel path used in FileBegin ("" = Rel)
}

type c07Spec struct {
	Seed   uint64            `json:"seed"`
	Strat  verifsim.Strategy `json:"strategy"`
	Root   string            `json:"root"`
	Items  []c07Item         `json:"items"`
	NoRoot bool              `json:"no_root"`
	Resume bool              `json:"resume"`
	Chunk  uint32            `json:"chunk"`
	SegMax int               `json:"seg_max"`
}

type c07Harness struct{}

// hostile strings; "@SANDBOX@" is replaced by the absolute sandbox path
var hostilePaths = []string{
	"../esc", "../../esc2", "../decoy.txt", "../decoydir/x", "..", "a/../../esc3", "a/b/../../../esc4",
	"@SANDBOX@/abs_esc", "@SANDBOX@/decoy.txt", "/", ".", "", "./../esc5", "../out_sibling/f", "sub/../../esc6",
	"..\\esc7", "a\x00/../esc8", "../.thruflux_resumedata/x", "....//esc9", "../out/../esc10",
}
var hostileIDs = []string{"../../id_esc", "../id_esc2", "a/b", "@SANDBOX@/id_abs", "..", "x/../../../id_esc3", "../decoy", "../.thruflux_resumedata/decoyid"}
var benignPaths = []string{"ok.bin", "sub/ok2.bin", "a..b", "dir with space/f", "deep/er/still/f.bin"}

func (c07Harness) Gen(r *verifsim.SplitMix, tier string, idx int) any {
	sp := c07Spec{Seed: r.Next(), Root: "tree", NoRoot: r.Chance(1, 2), Resume: r.Chance(1, 2), Chunk: []uint32{64, 512, 4096}[r.Intn(3)], SegMax: []int{13, 1200, 65536}[r.Intn(3)]}
	sp.Strat = genStrategy(r, 300)
	sp.Strat.Starve = ""
	pick := func(pool []string) string { return pool[r.Intn(len(pool))] }
	// exactly one or two hostile fields per run, the rest benign
	nh := 1 + r.Intn(2)
	slots := []string{"root", "dir", "file", "id", "begin", "dirid"}
	chosen := map[string]bool{}
	for i := 0; i < nh; i++ {
		chosen[slots[r.Intn(len(slots))]] = true
	}
	if chosen["root"] {
		sp.Root = pick(hostilePaths)
	}
	nItems := 1 + r.Intn(3)
	for i := 0; i < nItems; i++ {
		it := c07Item{Rel: fmt.Sprintf("d%d/%s", i, pick(benignPaths)), ID: fmt.Sprintf("%016x", r.Next()), Size: r.Intn(3 * int(sp.Chunk))}
		if i == 0 && chosen["file"] {
			it.Rel = pick(hostilePaths)
		}
		if i == 0 && chosen["id"] {
			it.ID = pick(hostileIDs)
		}
		if i == 0 && chosen["begin"] {
			it.BeginRel = pick(hostilePaths)
		}
		sp.Items = append(sp.Items, it)
	}
	d := c07Item{Rel: "plain_dir", Dir: true, ID: fmt.Sprintf("%016x", r.Next())}
	if chosen["dir"] {
		d.Rel = pick(hostilePaths)
	}
	if chosen["dirid"] {
		d.ID = pick(hostileIDs)
	}
	sp.Items = append(sp.Items, d)
	return sp
}

func (c07Harness) Decode(raw json.RawMessage) (any, error) {
	var sp c07Spec
	err := json.Unmarshal(raw, &sp)
	return sp, err
}

func (c07Harness) Shrink(spec any) []any {
	sp := spec.(c07Spec)
	var out []any
	for i := range sp.Items {
		c := sp
		c.Items = append(append([]c07Item(nil), sp.Items[:i]...), sp.Items[i+1:]...)
		out = append(out, c)
	}
	if sp.Root != "tree" {
		c := sp
		c.Root = "tree"
		out = append(out, c)
	}
	for i, it := range sp.Items {
		c := sp
		c.Items = append([]c07Item(nil), sp.Items...)
		changed := false
		if it.BeginRel != "" {
			c.Items[i].BeginRel = ""
			changed = true
		} else if it.Size > 0 {
			c.Items[i].Size = 0
			changed = true
		}
		if changed {
			out = append(out, c)
		}
	}
	if sp.Resume {
		c := sp
		c.Resume = false
		out = append(out, c)
	}
	if sp.Strat.Kind != "fifo" || sp.Strat.StallPer != 0 {
		c := sp
		c.Strat.Kind, c.Strat.StallPer = "fifo", 0
		out = append(out, c)
	}
	return out
}

func snapshotOutside(sandbox, out string) map[string]string {
	snap := map[string]string{}
	filepath.Walk(sandbox, func(p string, info os.FileInfo, err error) error {
		if err != nil {
			return nil
		}
		if p == out {
			return filepath.SkipDir
		}
		rel, _ := filepath.Rel(sandbox, p)
		switch {
		case info.IsDir():
			snap[rel] = "dir"
		case info.Mode().IsRegular():
			b, _ := os.ReadFile(p)
			snap[rel] = fmt.Sprintf("file %d %08x", len(b), crc32.ChecksumIEEE(b))
		default:
			snap[rel] = info.Mode().String()
		}
		return nil
	})
	return snap
}

func withinDir(p, dir string) bool {
	p = filepath.Clean(p)
	dir = filepath.Clean(dir)
	return p == dir || strings.HasPrefix(p, dir+string(os.PathSeparator))
}

func (c07Harness) Run(spec any) (res verifsim.RunResult) {
	sp := spec.(c07Spec)
	res.Counters = map[string]int64{}
	runCounter++
	base := filepath.Join(scratchDir(), fmt.Sprintf("c07run%07d", runCounter))
	os.RemoveAll(base)
	defer os.RemoveAll(base)
	sandbox := filepath.Join(base, "sandbox")
	out := filepath.Join(sandbox, "out")
	os.MkdirAll(out, 0o755)
	os.MkdirAll(filepath.Join(sandbox, "decoydir"), 0o755)
	os.MkdirAll(filepath.Join(sandbox, "out_sibling"), 0o755)
	os.MkdirAll(filepath.Join(sandbox, ".thruflux_resumedata"), 0o755)
	os.WriteFile(filepath.Join(sandbox, "decoy.txt"), []byte("decoy content that must survive"), 0o644)
	os.WriteFile(filepath.Join(sandbox, "decoydir", "x"), []byte("another decoy"), 0o644)
	os.WriteFile(filepath.Join(sandbox, "out_sibling", "f"), []byte("sibling"), 0o644)
	os.WriteFile(filepath.Join(sandbox, ".thruflux_resumedata", "decoyid.sbxmap"), []byte("not a sidecar"), 0o644)
	sub := func(s string) string { return strings.ReplaceAll(s, "@SANDBOX@", sandbox) }
	m := manifest.Manifest{Root: sub(sp.Root)}
	type fileData struct {
		item manifest.FileItem
		data []byte
		brel string
	}
	var files []fileData
	for _, it := range sp.Items {
		mi := manifest.FileItem{RelPath: sub(it.Rel), IsDir: it.Dir, ID: sub(it.ID), ModTime: 1700000000}
		if !it.Dir {
			mi.Size = int64(it.Size)
			m.TotalBytes += mi.Size
			m.FileCount++
			brel := mi.RelPath
			if it.BeginRel != "" {
				brel = sub(it.BeginRel)
			}
			files = append(files, fileData{item: mi, data: fileContent(sp.Seed, it.Rel, it.Size), brel: brel})
		} else {
			m.FolderCount++
		}
		m.Items = append(m.Items, mi)
	}
	var ctl bufStream
	writeControlHeader(&ctl, m)
	writeDataStreams(&ctl, DataStreams{Count: 1})
	var data bytes.Buffer
	for _, f := range files {
		key := fileKeyForItem(f.item)
		ctl.Write(encFileBegin(f.brel, uint64(f.item.Size), sp.Chunk, key, HashAlgCRC32C))
		if sp.Resume {
			writeResumeRequest(&ctl, ResumeRequest{FileID: f.item.ID, StreamID: key})
		}
		for off, idx := 0, uint32(0); off < len(f.data); off, idx = off+int(sp.Chunk), idx+1 {
			end := off + int(sp.Chunk)
			if end > len(f.data) {
				end = len(f.data)
			}
			data.Write(encFrame(key, idx, f.data[off:end]))
		}
		writeFileEnd(&ctl, FileEnd{StreamID: key})
	}
	writeControlEnd(&ctl)
	before := snapshotOutside(sandbox, out)
	script := scriptPeer{opens: true, streams: [][]byte{ctl.Bytes(), data.Bytes()}, lingerMs: 3000, closeConn: true}
	sr := runScript(sp.Seed, sp.Strat, sp.SegMax, script, func(ctx context.Context, conn Conn) error {
		_, err := RecvManifestMultiStream(ctx, conn, out, Options{Resume: sp.Resume, NoRootDir: sp.NoRoot, HashAlg: "crc32c"})
		return err
	}, true)
	after := snapshotOutside(sandbox, out)
	res.LogHash, res.Steps, res.SimTime, res.QStates = sr.hash, sr.steps, sr.sim, sr.qstates
	res.Nontrivial = sr.steps > 20
	res.Counters["fs_ops_logged"] += int64(len(sr.fsLog))
	if sr.targetErr == nil && sr.targetRet {
		res.Counters["receiver_accepted"]++
	} else {
		res.Counters["receiver_rejected"]++
	}
	res.Sample = map[string]any{"spec": sp, "receiver": errStr(sr.targetErr)}
	v := func(class, sig, detail string) {
		for _, x := range res.Violations {
			if x.Class == class && x.Signature == sig {
				return
			}
		}
		res.Violations = append(res.Violations, &verifsim.Violation{Class: class, Signature: sig, Detail: detail, LogHash: verifsim.HashStr(sr.hash), Steps: sr.steps, Trace: sr.log})
	}
	if sr.bubblePanic != "" && !strings.Contains(sr.bubblePanic, "deadlock: main bubble goroutine has exited") {
		v("harness-panic", firstLine(sr.bubblePanic), sr.bubblePanic)
		return
	}
	field := c07Field(sp)
	var changed []string
	for k, a := range after {
		if b, ok := before[k]; !ok {
			changed = append(changed, "created "+k)
		} else if a != b {
			changed = append(changed, "modified "+k)
		}
	}
	for k := range before {
		if _, ok := after[k]; !ok {
			changed = append(changed, "deleted "+k)
		}
	}
	sort.Strings(changed)
	if len(changed) > 0 {
		v("escaped-output-dir", field, fmt.Sprintf("hostile field(s) %s: entries outside the output directory changed: %v", field, changed))
	}
	for _, op := range sr.fsLog {
		if !op.Mut || op.Node != "T" || strings.Contains(op.Kind, "!") {
			continue
		}
		p := op.Path
		if op.Kind == "rename" {
			p = op.Path2
		}
		if !filepath.IsAbs(p) {
			v("escaped-output-dir", field+":relative-path-op", fmt.Sprintf("%s on relative path %q", op.Kind, p))
			continue
		}
		if !withinDir(p, out) {
			if op.Kind == "mkdirall" {
				if _, existed := before[mustRel(sandbox, p)]; existed || filepath.Clean(p) == filepath.Clean(sandbox) {
					continue // MkdirAll of an existing directory creates nothing
				}
			}
			v("escaped-output-dir", field+":op-outside", fmt.Sprintf("hostile field(s) %s: %s %s (outside %s)", field, op.Kind, p, out))
		}
	}
	return
}

func mustRel(base, p string) string {
	r, err := filepath.Rel(base, filepath.Clean(p))
	if err != nil {
		return p
	}
	return r
}

func isHostile(s string, pool []string) bool {
	for _, h := range pool {
		if s == h {
			return true
		}
	}
	return false
}

// c07Field names which manifest fields carried hostile content.
func c07Field(sp c07Spec) string {
	var fs []string
	if isHostile(sp.Root, hostilePaths) {
		fs = append(fs, "manifest.root")
	}
	for _, it := range sp.Items {
		if isHostile(it.Rel, hostilePaths) {
			if it.Dir {
				fs = append(fs, "dir.rel_path")
			} else {
				fs = append(fs, "file.rel_path")
			}
		}
		if isHostile(it.ID, hostileIDs) {
			fs = append(fs, "item.id")
		}
		if it.BeginRel != "" {
			fs = append(fs, "FileBegin.rel_path")
		}
	}
	sort.Strings(fs)
	var uniq []string
	for i, f := range fs {
		if i == 0 || fs[i-1] != f {
			uniq = append(uniq, f)
		}
	}
	if len(uniq) == 0 {
		return "none"
	}
	return strings.Join(uniq, "+")
}
