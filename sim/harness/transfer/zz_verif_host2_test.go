package transfer

// C01, part "C01H2": one host process serving two receivers at once (the
// product's default is up to four). The two sender engines run in the same
// simulated process S - they share its read pool and chunk buffer pools, as
// they do in the product - while the receivers R and Q are processes of their
// own. Transfer 1 may be cancelled (its receiver leaves) at a drawn delivery;
// transfer 2 is never disturbed: if both of its ends report success, its tree
// must be identical.

import (
	"context"
	"encoding/json"
	"fmt"
	"os"
	"path/filepath"
	"strings"
	"sync"
	"sync/atomic"
	"testing"
	"testing/synctest"
	"time"

	"github.com/sheerbytes/sheerbytes/internal/verifsim"
)

type host2Spec struct {
	Seed        uint64            `json:"seed"`
	ContentSeed uint64            `json:"content_seed"`
	Strat       verifsim.Strategy `json:"strategy"`
	Chunk       uint32            `json:"chunk"`
	Streams     int               `json:"streams"`
	SegMax      int               `json:"seg_max"`
	Files1      []txFile          `json:"files_transfer_1"`
	Files2      []txFile          `json:"files_transfer_2"`
	CancelAt    int               `json:"cancel_transfer_1_at_delivery"` // -1: never
	ReadWorkers int               `json:"read_pool_workers"`
}

type host2Harness struct{}

func (host2Harness) Gen(r *verifsim.SplitMix, tier string, idx int) any {
	sp := host2Spec{Seed: r.Next(), ContentSeed: r.Next()}
	sp.Chunk = []uint32{64, 512, 1024}[r.Intn(3)]
	sp.Streams = 1 + r.Intn(3)
	sp.SegMax = []int{200, 1200, 65536}[r.Intn(3)]
	sp.ReadWorkers = 1 + r.Intn(3)
	c := int(sp.Chunk)
	gen := func(tag string) []txFile {
		var fs []txFile
		for i, n := 0, 1+r.Intn(3); i < n; i++ {
			fs = append(fs, txFile{P: fmt.Sprintf("%s%d.bin", tag, i), N: (1+r.Intn(6))*c - r.Intn(c)})
		}
		return fs
	}
	sp.Files1, sp.Files2 = gen("a"), gen("b")
	sp.CancelAt = -1
	if r.Chance(3, 4) {
		sp.CancelAt = r.Intn(60)
	}
	sp.Strat = genStrategy(r, 400)
	return sp
}

func (host2Harness) Decode(raw json.RawMessage) (any, error) {
	var sp host2Spec
	err := json.Unmarshal(raw, &sp)
	return sp, err
}

func (host2Harness) Shrink(spec any) []any {
	sp := spec.(host2Spec)
	var out []any
	for i := range sp.Files1 {
		if len(sp.Files1) > 1 {
			c := sp
			c.Files1 = append(append([]txFile(nil), sp.Files1[:i]...), sp.Files1[i+1:]...)
			out = append(out, c)
		}
	}
	for i := range sp.Files2 {
		if len(sp.Files2) > 1 {
			c := sp
			c.Files2 = append(append([]txFile(nil), sp.Files2[:i]...), sp.Files2[i+1:]...)
			out = append(out, c)
		}
	}
	if sp.Streams > 1 {
		c := sp
		c.Streams = 1
		out = append(out, c)
	}
	if sp.Strat.Kind != "fifo" {
		c := sp
		c.Strat.Kind = "fifo"
		out = append(out, c)
	}
	return out
}

func (host2Harness) Run(spec any) (res verifsim.RunResult) {
	sp := spec.(host2Spec)
	res.Counters = map[string]int64{}
	runCounter++
	base := filepath.Join(scratchDir(), fmt.Sprintf("run%07d", runCounter))
	os.RemoveAll(base)
	defer os.RemoveAll(base)
	src1, src2 := filepath.Join(base, "h", "one", "tree"), filepath.Join(base, "h", "two", "tree")
	out1, out2 := filepath.Join(base, "r", "out"), filepath.Join(base, "q", "out")
	for _, d := range []string{src1, src2, out1, out2} {
		os.MkdirAll(d, 0o755)
	}
	if writeTree(src1, sp.ContentSeed, sp.Files1, nil) != nil || writeTree(src2, sp.ContentSeed^0x2222, sp.Files2, nil) != nil {
		res.Skipped = true
		return
	}
	base1 := txSpec{Scan: "root"}
	m1, _, _, err1 := scanFor(&base1, src1)
	m2, _, _, err2 := scanFor(&base1, src2)
	if err1 != nil || err2 != nil {
		res.Skipped = true
		return
	}
	var s *verifsim.Sched
	var errS1, errS2, errR1, errR2 error
	var retS2, retR2 bool
	var bubblePanic, nodePanic string
	var outcome verifsim.Outcome
	cancelled := false
	func() {
		defer func() {
			if r := recover(); r != nil {
				bubblePanic = fmt.Sprint(r)
			}
		}()
		synctest.Test(txT, func(t *testing.T) {
			s = verifsim.New(sp.Seed, sp.Strat)
			s.FS = verifsim.NewFS()
			verifsim.S = s
			verifsim.Watch(s)
			verifsim.SetName("main")
			globalSidecarFlushRegistry = sidecarFlushRegistry{}
			net := verifsim.NewNet(s, verifsim.NetCfg{SegMax: sp.SegMax})
			s.Events = net.Events
			c1, v1 := net.Pair("c0") // transfer 1: host S <-> receiver R
			c2, v2 := net.Pair("d0") // transfer 2: host S <-> receiver Q
			ctx1, cancel1 := context.WithCancel(context.Background())
			ctx2, cancel2 := context.WithCancel(context.Background())
			ctxR, cancelR := context.WithCancel(context.Background())
			ctxQ, cancelQ := context.WithCancel(context.Background())
			var mu sync.Mutex
			var done atomic.Int32
			frozen := false
			net.OnDeliver = func(d *verifsim.Delivery) verifsim.Action {
				if sp.CancelAt >= 0 && d.Index == sp.CancelAt && !cancelled {
					// receiver 1 has left: the host cancels that transfer (handlePeerLeft)
					cancelled = true
					cancel1()
				}
				return verifsim.ActNone
			}
			// the host's read pool: one per process, shared by both transfers
			verifsim.SetName("S>pool")
			globalReadPoolOnce.Do(func() {})
			pool := newReadPool(sp.ReadWorkers)
			globalReadPool = pool
			verifsim.SetName("main")
			run := func(name string, f func() error, set func(error)) {
				verifsim.Go(name, func() {
					defer done.Add(1)
					defer func() {
						if r := recover(); r != nil {
							mu.Lock()
							nodePanic = fmt.Sprintf("%s: %v", name, r)
							mu.Unlock()
						}
					}()
					err := f()
					mu.Lock()
					if !frozen {
						set(err)
					}
					mu.Unlock()
				})
			}
			sOpts := Options{ChunkSize: sp.Chunk, ParallelFiles: sp.Streams, HashAlg: "crc32c"}
			rOpts := Options{NoRootDir: true, HashAlg: "crc32c"}
			run("S", func() error {
				err := SendManifestMultiStream(ctx1, txConn{c1}, src1, m1, sOpts)
				_ = txConn{c1}.Close()
				return err
			}, func(e error) { errS1 = e })
			run("S>second", func() error {
				err := SendManifestMultiStream(ctx2, txConn{c2}, src2, m2, sOpts)
				_ = txConn{c2}.Close()
				return err
			}, func(e error) { errS2, retS2 = e, true })
			run("R", func() error {
				_, err := RecvManifestMultiStream(ctxR, txConn{v1}, out1, rOpts)
				v1.KillLocal()
				return err
			}, func(e error) { errR1 = e })
			run("Q", func() error {
				_, err := RecvManifestMultiStream(ctxQ, txConn{v2}, out2, rOpts)
				v2.KillLocal()
				return err
			}, func(e error) { errR2, retR2 = e, true })
			start := time.Now()
			outcome = s.Run(func() bool { return done.Load() >= 4 }, start.Add(16*time.Minute), 0)
			mu.Lock()
			frozen = true
			mu.Unlock()
			for _, n := range []string{"S", "R", "Q"} {
				s.Kill(n)
			}
			s.Stop()
			verifsim.Watch(nil)
			cancel1()
			cancel2()
			cancelR()
			cancelQ()
			net.Shutdown()
			for i := 0; i < 100 && done.Load() < 4; i++ {
				time.Sleep(10 * time.Second)
			}
			close(pool.jobs)
			time.Sleep(time.Second)
		})
	}()
	verifsim.S = nil
	if s != nil {
		res.LogHash, res.Steps, res.SimTime, res.QStates = s.LogHash, s.Steps, s.Since(), len(s.QStates)
		res.Nontrivial = s.Steps > 50
	}
	res.Counters["host2_runs"]++
	if cancelled {
		res.Counters["host2_transfer_1_cancelled"]++
	}
	res.Sample = map[string]any{"spec": sp, "transfer_1": map[string]string{"sender": errStr(errS1), "receiver": errStr(errR1)}, "transfer_2": map[string]string{"sender": errStr(errS2), "receiver": errStr(errR2)}, "outcome": outcome.String()}
	v := func(class, sig, detail string) {
		vi := &verifsim.Violation{Class: class, Signature: sig, Detail: detail}
		if s != nil {
			vi.LogHash, vi.Steps, vi.Trace = verifsim.HashStr(s.LogHash), s.Steps, s.Log
		}
		res.Violations = append(res.Violations, vi)
	}
	if bubblePanic != "" && !strings.Contains(bubblePanic, "deadlock: main bubble goroutine has exited") {
		v("harness-panic", firstLine(bubblePanic), bubblePanic)
		return
	}
	if nodePanic != "" {
		v("panic", "host2:"+firstLine(nodePanic), nodePanic)
		return
	}
	if outcome != verifsim.Finished || !retS2 || !retR2 || errS2 != nil || errR2 != nil {
		// transfer 2 did not succeed on both sides: outside C01 (and, undisturbed as it is,
		// it would be C03's business; counted so that it is visible)
		res.Counters["host2_transfer_2_not_successful"]++
		res.Skipped = true
		return
	}
	res.Counters["host2_transfer_2_succeeded"]++
	want := expectedDigest("", sp.ContentSeed^0x2222, sp.Files2, nil)
	got, _ := digestTree(out2, out2)
	if d := diffDigests(want, got); d != "" {
		how := "transfer 1 ran to its end"
		if cancelled {
			how = fmt.Sprintf("transfer 1 was cancelled at delivery %d", sp.CancelAt)
		}
		v("tree-differs", "host2:"+treeDiffSig(want, got), fmt.Sprintf("one host, two receivers (%s): both ends of transfer 2 reported success but its tree differs: %s", how, d))
	}
	return
}
