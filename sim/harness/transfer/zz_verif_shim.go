package transfer

import (
	"fmt"
	"sync"

	"github.com/sheerbytes/sheerbytes/internal/bufpool"
	"github.com/sheerbytes/sheerbytes/internal/verifsim"
)

// Overlay-only shim (simulation builds): lets harnesses of other packages give
// every run its own read pool, so that no pool goroutine outlives its bubble.

func VerifResetReadPool(n int) (stop func()) {
	globalReadPoolOnce.Do(func() {})
	pool := newReadPool(n)
	globalReadPool = pool
	return func() { close(pool.jobs) }
}

// verifChunkPoolFor stands in for chunkPoolFor in simulation builds: the buffer
// pools are process-wide state, and the simulated sender and receiver are two
// processes, so each node name gets pools of its own. Whether a size has a pool
// at all is still chunkPoolFor's decision.
var verifNodePools sync.Map

func verifChunkPoolFor(chunkSize uint32) *bufpool.Pool {
	base := chunkPoolFor(chunkSize)
	if base == nil || verifsim.S == nil {
		return base
	}
	key := fmt.Sprintf("%s/%d", verifsim.NodeOf(verifsim.Name()), chunkSize)
	if p, ok := verifNodePools.Load(key); ok {
		return p.(*bufpool.Pool)
	}
	p, _ := verifNodePools.LoadOrStore(key, bufpool.New(int(chunkSize)))
	return p.(*bufpool.Pool)
}
