package transfer

// Overlay-only shim (simulation builds): lets harnesses of other packages give
// every run its own read pool, so that no pool goroutine outlives its bubble.

func VerifResetReadPool(n int) (stop func()) {
	globalReadPoolOnce.Do(func() {})
	pool := newReadPool(n)
	globalReadPool = pool
	return func() { close(pool.jobs) }
}
