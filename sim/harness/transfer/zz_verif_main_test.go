package transfer

import (
	"testing"

	"github.com/sheerbytes/sheerbytes/internal/termio"
	"github.com/sheerbytes/sheerbytes/internal/verifsim"
)

func TestVerif(t *testing.T) {
	e, ok := verifsim.LoadWorkerEnv()
	if !ok {
		t.Skip("not a verif worker")
	}
	termio.Init()
	txT = t
	var h verifsim.Harness
	switch e.Prop {
	case "C01", "C03", "C17":
		h = txHarness{prop: e.Prop}
	case "C01H2":
		h = host2Harness{}
	case "C01BIG":
		h = bigHarness{}
	case "C02":
		h = c02Harness{}
	case "C07":
		h = c07Harness{}
	case "C15":
		h = c15Harness{}
	case "C04", "C05", "C06":
		h = resumeHarness{prop: e.Prop}
	default:
		t.Fatalf("unknown property %s for package transfer", e.Prop)
	}
	if rc := verifsim.WorkerMain(h, e); rc != 0 {
		t.Fatalf("worker exit %d", rc)
	}
}
