package transfer

// Adapters from the simulator's concrete connection/stream types to the
// repository's transfer.Conn / transfer.Stream interfaces, plus the tree
// generator and digest used by the TX harnesses.

import (
	"context"
	"crypto/sha256"
	"encoding/hex"
	"fmt"
	"os"
	"path/filepath"
	"sort"
	"strings"
	"time"

	"github.com/sheerbytes/sheerbytes/internal/verifsim"
)

type txConn struct{ *verifsim.NConn }

func (c txConn) OpenStream(ctx context.Context) (Stream, error) {
	s, err := c.NConn.OpenStream(ctx)
	if err != nil {
		return nil, err
	}
	return s, nil
}

func (c txConn) AcceptStream(ctx context.Context) (Stream, error) {
	s, err := c.NConn.AcceptStream(ctx)
	if err != nil {
		return nil, err
	}
	return s, nil
}

var _ Conn = txConn{}
var _ StreamIDer = (*verifsim.NStream)(nil)
var _ streamDeadlineSetter = (*verifsim.NStream)(nil)

// ---- trees ----

type txFile struct {
	P string `json:"p"`
	N int    `json:"n"`
	// Link: P is a symbolic link to this file of the tree (path relative to the tree
	// root); N is the target's size. A reader of the hosted tree sees the target's bytes.
	Link string `json:"symlink_to,omitempty"`
}

// fsName: the name as it is on disk (a spec spells the byte 0xE9, which is not valid
// UTF-8 on its own, as %E9).
func fsName(p string) string { return strings.ReplaceAll(p, "%E9", "\xe9") }

// seedPath: the path the content of f is derived from.
func (f txFile) seedPath() string {
	if f.Link != "" {
		return f.Link
	}
	return f.P
}

func fileContent(seed uint64, path string, n int) []byte {
	r := verifsim.NewSplitMix(verifsim.Mix(seed, path))
	b := make([]byte, n)
	for i := 0; i < n; i += 8 {
		v := r.Next()
		for j := 0; j < 8 && i+j < n; j++ {
			b[i+j] = byte(v >> (8 * j))
		}
	}
	return b
}

func writeTree(root string, seed uint64, files []txFile, dirs []string) error {
	if err := os.MkdirAll(root, 0o755); err != nil {
		return err
	}
	for _, d := range dirs {
		if err := os.MkdirAll(filepath.Join(root, filepath.FromSlash(fsName(d))), 0o755); err != nil {
			return err
		}
	}
	for _, f := range files {
		p := filepath.Join(root, filepath.FromSlash(fsName(f.P)))
		if err := os.MkdirAll(filepath.Dir(p), 0o755); err != nil {
			return err
		}
		if f.Link != "" {
			rel, err := filepath.Rel(filepath.Dir(p), filepath.Join(root, filepath.FromSlash(fsName(f.Link))))
			if err != nil {
				return err
			}
			if err := os.Symlink(rel, p); err != nil {
				return err
			}
			continue
		}
		if err := os.WriteFile(p, fileContent(seed, f.P, f.N), 0o644); err != nil {
			return err
		}
	}
	// Modification times feed the manifest's item ids (and through them file
	// keys, sidecar names and map orders): pin them so a spec is reproducible.
	stamp := time.Unix(1700000000+int64(seed%100000), 0)
	var all []string
	filepath.Walk(root, func(p string, info os.FileInfo, err error) error {
		if err == nil {
			all = append(all, p)
		}
		return nil
	})
	for i := len(all) - 1; i >= 0; i-- {
		os.Chtimes(all[i], stamp, stamp)
	}
	return nil
}

// digestTree lists (relpath, kind, size, sha256) of everything under base,
// ignoring exactly the resume-metadata directory directly under ignoreIn dirs.
func digestTree(base string, ignoreIn ...string) ([]string, error) {
	var out []string
	ign := map[string]bool{}
	for _, d := range ignoreIn {
		ign[filepath.Join(d, sidecarDir)] = true
	}
	err := filepath.Walk(base, func(p string, info os.FileInfo, err error) error {
		if err != nil {
			return err
		}
		if p == base {
			return nil
		}
		if info.IsDir() && ign[p] {
			return filepath.SkipDir
		}
		rel, _ := filepath.Rel(base, p)
		rel = filepath.ToSlash(rel)
		switch {
		case info.IsDir():
			out = append(out, "D "+rel)
		case info.Mode().IsRegular():
			b, rerr := os.ReadFile(p)
			if rerr != nil {
				return rerr
			}
			h := sha256.Sum256(b)
			out = append(out, fmt.Sprintf("F %s %d %s", rel, len(b), hex.EncodeToString(h[:8])))
		default:
			out = append(out, fmt.Sprintf("? %s %v", rel, info.Mode()))
		}
		return nil
	})
	sort.Strings(out)
	return out, err
}

func expectedDigest(prefix string, seed uint64, files []txFile, dirs []string) []string {
	set := map[string]bool{}
	var out []string
	addDir := func(d string) {
		for d != "" && d != "." {
			if !set[d] {
				set[d] = true
				out = append(out, "D "+d)
			}
			i := strings.LastIndexByte(d, '/')
			if i < 0 {
				break
			}
			d = d[:i]
		}
	}
	if prefix != "" {
		addDir(prefix)
	}
	join := func(p string) string {
		if prefix == "" {
			return p
		}
		return prefix + "/" + p
	}
	for _, d := range dirs {
		addDir(join(fsName(d)))
	}
	for _, f := range files {
		p := join(fsName(f.P))
		if i := strings.LastIndexByte(p, '/'); i >= 0 {
			addDir(p[:i])
		}
		h := sha256.Sum256(fileContent(seed, f.seedPath(), f.N))
		out = append(out, fmt.Sprintf("F %s %d %s", p, f.N, hex.EncodeToString(h[:8])))
	}
	sort.Strings(out)
	return out
}

func diffDigests(want, got []string) string {
	w := map[string]bool{}
	g := map[string]bool{}
	for _, x := range want {
		w[x] = true
	}
	for _, x := range got {
		g[x] = true
	}
	var miss, extra []string
	for _, x := range want {
		if !g[x] {
			miss = append(miss, x)
		}
	}
	for _, x := range got {
		if !w[x] {
			extra = append(extra, x)
		}
	}
	if len(miss) == 0 && len(extra) == 0 {
		return ""
	}
	if len(miss) > 6 {
		miss = append(miss[:6], "...")
	}
	if len(extra) > 6 {
		extra = append(extra[:6], "...")
	}
	return fmt.Sprintf("missing/different=%v unexpected=%v", miss, extra)
}
