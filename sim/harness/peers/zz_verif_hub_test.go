package peers

// C11 harness: the real, instrumented Hub driven by 2-6 actor goroutines under
// the seeded scheduler inside a synctest bubble. Overlaid into the repository
// package by the /verif build; not part of the repository.

import (
	"encoding/json"
	"fmt"
	"sort"
	"strings"
	"sync"
	"sync/atomic"
	"testing"
	"testing/synctest"
	"time"

	"github.com/anishathalye/porcupine"
	"github.com/sheerbytes/sheerbytes/internal/verifsim"
	"github.com/sheerbytes/sheerbytes/pkg/protocol"
)

type hubOp struct {
	K    string `json:"k"`              // add rm sendto bcast bcastx list closesess | flood hold pause
	N    int    `json:"n,omitempty"`    // flood: how many addressed messages
	S    int    `json:"s"`              // session index
	P    int    `json:"p,omitempty"`    // peer index
	Slot int    `json:"slot,omitempty"` // rm: which of the actor's own adds (ordinal)
	Mode string `json:"mode,omitempty"` // add: send func behaviour: ok | err | block
}

type hubSpec struct {
	Seed   uint64            `json:"seed"`
	Strat  verifsim.Strategy `json:"strategy"`
	Actors [][]hubOp         `json:"actors"`
}

type hubHarness struct{ t *testing.T }

var hubModes = []string{"ok", "ok", "ok", "ok", "err", "block"}

func (hubHarness) Gen(r *verifsim.SplitMix, tier string, idx int) any {
	sp := hubSpec{Seed: r.Next()}
	kinds := []string{"rand", "weighted", "pct", "pct", "rand"}
	sp.Strat = verifsim.Strategy{Kind: kinds[r.Intn(len(kinds))], Seed: r.Next(), D: r.Intn(4), Horizon: 300, MaxW: 2 + r.Intn(10)}
	if r.Chance(1, 3) {
		sp.Strat.StallPer = 50 + r.Intn(300)
	}
	na := 2 + r.Intn(5)
	ns := 1 + r.Intn(2)
	np := 1 + r.Intn(3)
	maxOps := 3 + r.Intn(5)
	for a := 0; a < na; a++ {
		var ops []hubOp
		open := 0
		adds := 0
		n := 1 + r.Intn(maxOps)
		for i := 0; i < n; i++ {
			switch x := r.Intn(100); {
			case x < 30:
				ops = append(ops, hubOp{K: "add", S: r.Intn(ns), P: r.Intn(np), Mode: hubModes[r.Intn(len(hubModes))]})
				open++
				adds++
			case x < 45 && adds > 0:
				ops = append(ops, hubOp{K: "rm", Slot: r.Intn(adds)})
			case x < 60:
				ops = append(ops, hubOp{K: "sendto", S: r.Intn(ns), P: r.Intn(np)})
			case x < 72:
				ops = append(ops, hubOp{K: "bcast", S: r.Intn(ns)})
			case x < 84:
				ops = append(ops, hubOp{K: "bcastx", S: r.Intn(ns), P: r.Intn(np)})
			case x < 94:
				ops = append(ops, hubOp{K: "list", S: r.Intn(ns)})
			default:
				ops = append(ops, hubOp{K: "closesess", S: r.Intn(ns)})
			}
		}
		sp.Actors = append(sp.Actors, ops)
	}
	if r.Chance(1, 6) {
		// a slow or dead peer: its socket takes one message and then nothing, its handler
		// stays (60 simulated seconds) before it notices and leaves; somebody sends it more
		// messages than its queue holds; the other actors start a second later
		for len(sp.Actors) < 3 {
			sp.Actors = append(sp.Actors, []hubOp{{K: "list", S: 0}, {K: "add", S: r.Intn(ns), P: 1 + r.Intn(3), Mode: "ok"}})
		}
		sp.Actors[0] = append([]hubOp{{K: "add", S: 0, P: 0, Mode: "block"}, {K: "hold"}}, sp.Actors[0]...)
		sp.Actors[1] = append([]hubOp{{K: "flood", S: 0, P: 0, N: 258 + r.Intn(40)}}, sp.Actors[1]...)
		for a := 2; a < len(sp.Actors); a++ {
			sp.Actors[a] = append([]hubOp{{K: "pause"}}, sp.Actors[a]...)
		}
	}
	return sp
}

func (hubHarness) Decode(raw json.RawMessage) (any, error) {
	var sp hubSpec
	err := json.Unmarshal(raw, &sp)
	return sp, err
}

func (hubHarness) Shrink(spec any) []any {
	sp := spec.(hubSpec)
	var out []any
	clone := func() hubSpec {
		c := sp
		c.Actors = make([][]hubOp, len(sp.Actors))
		for i := range sp.Actors {
			c.Actors[i] = append([]hubOp(nil), sp.Actors[i]...)
		}
		return c
	}
	for a := range sp.Actors {
		c := clone()
		c.Actors = append(c.Actors[:a], c.Actors[a+1:]...)
		if len(c.Actors) > 0 {
			out = append(out, c)
		}
	}
	for a := range sp.Actors {
		for i := range sp.Actors[a] {
			c := clone()
			c.Actors[a] = append(c.Actors[a][:i], c.Actors[a][i+1:]...)
			out = append(out, c)
		}
	}
	for a := range sp.Actors {
		for i, op := range sp.Actors[a] {
			if op.K == "add" && op.Mode != "ok" {
				c := clone()
				c.Actors[a][i].Mode = "ok"
				out = append(out, c)
			}
		}
	}
	if sp.Strat.StallPer > 0 {
		c := clone()
		c.Strat.StallPer = 0
		out = append(out, c)
	}
	if sp.Strat.Kind != "rand" {
		c := clone()
		c.Strat.Kind = "rand"
		out = append(out, c)
	}
	return out
}

// ---- sequential reference model for porcupine ----

type hubIn struct {
	K          string
	Sess       string
	Peer, Conn string
}
type hubOut struct {
	OK   bool
	List string
}

// state: "conn=peer,conn=peer|peer=conn,peer=conn" for one session (history is partitioned by session)
type hubState struct {
	conns map[string]string
	by    map[string]string
}

func decodeHubState(s string) hubState {
	st := hubState{conns: map[string]string{}, by: map[string]string{}}
	parts := strings.SplitN(s, "|", 2)
	for i, part := range parts {
		if part == "" {
			continue
		}
		for _, kv := range strings.Split(part, ",") {
			x := strings.SplitN(kv, "=", 2)
			if i == 0 {
				st.conns[x[0]] = x[1]
			} else {
				st.by[x[0]] = x[1]
			}
		}
	}
	return st
}

func (st hubState) encode() string {
	enc := func(m map[string]string) string {
		ks := make([]string, 0, len(m))
		for k := range m {
			ks = append(ks, k)
		}
		sort.Strings(ks)
		var b []string
		for _, k := range ks {
			b = append(b, k+"="+m[k])
		}
		return strings.Join(b, ",")
	}
	return enc(st.conns) + "|" + enc(st.by)
}

var hubModel = porcupine.Model{
	Partition: func(h []porcupine.Operation) [][]porcupine.Operation {
		m := map[string][]porcupine.Operation{}
		var keys []string
		for _, op := range h {
			k := op.Input.(hubIn).Sess
			if _, ok := m[k]; !ok {
				keys = append(keys, k)
			}
			m[k] = append(m[k], op)
		}
		sort.Strings(keys)
		var out [][]porcupine.Operation
		for _, k := range keys {
			out = append(out, m[k])
		}
		return out
	},
	Init: func() interface{} { return "|" },
	Step: func(state, input, output interface{}) (bool, interface{}) {
		st := decodeHubState(state.(string))
		in := input.(hubIn)
		out := output.(hubOut)
		switch in.K {
		case "add":
			if old, ok := st.by[in.Peer]; ok && old != in.Conn {
				delete(st.conns, old)
				delete(st.by, in.Peer)
			}
			st.conns[in.Conn] = in.Peer
			st.by[in.Peer] = in.Conn
			return true, st.encode()
		case "rm":
			if _, ok := st.conns[in.Conn]; ok {
				delete(st.conns, in.Conn)
				if st.by[in.Peer] == in.Conn {
					delete(st.by, in.Peer)
				}
			}
			return true, st.encode()
		case "closesess":
			return true, "|"
		case "list":
			var ps []string
			for _, p := range st.conns {
				ps = append(ps, p)
			}
			sort.Strings(ps)
			return strings.Join(ps, ",") == out.List, state
		case "sendto":
			c, ok := st.by[in.Peer]
			if ok {
				_, ok = st.conns[c]
			}
			return ok == out.OK, state
		}
		return false, state
	},
	DescribeOperation: func(input, output interface{}) string {
		return fmt.Sprintf("%+v -> %+v", input, output)
	},
}

type hubDelivery struct {
	conn string
	msg  string
}

type hubConnRec struct {
	sess, peer, conn string
	mode             string
	unblock          chan struct{}
	once             sync.Once
}

func (hubHarness) Run(spec any) (res verifsim.RunResult) {
	sp := spec.(hubSpec)
	res.Counters = map[string]int64{}
	var viol []*verifsim.Violation
	addV := func(class, sig, detail string) {
		for _, v := range viol {
			if v.Class == class && v.Signature == sig {
				return
			}
		}
		viol = append(viol, &verifsim.Violation{Class: class, Signature: sig, Detail: detail})
	}
	var s *verifsim.Sched
	var bubblePanic string
	deadlocked := false
	func() {
		defer func() {
			if r := recover(); r != nil {
				bubblePanic = fmt.Sprint(r)
			}
		}()
		synctest.Test(hubT, func(t *testing.T) {
			s = verifsim.New(sp.Seed, sp.Strat)
			verifsim.S = s
			verifsim.Watch(s)
			verifsim.SetName("main")
			h := NewHub()
			var mu sync.Mutex
			var ops []porcupine.Operation
			var deliveries []hubDelivery
			sent := map[string]hubIn{} // msg id -> how it was sent
			conns := map[string]*hubConnRec{}
			var allConns []*hubConnRec
			var done atomic.Int32
			var panics []string
			nextConn := 0
			record := func(client int, in hubIn, call int, out hubOut) {
				mu.Lock()
				ops = append(ops, porcupine.Operation{ClientId: client, Input: in, Call: int64(call), Output: out, Return: int64(s.Steps*2 + 1)})
				mu.Unlock()
			}
			msgN := 0
			floods := 0
			for ai, script := range sp.Actors {
				ai, script := ai, script
				verifsim.Go(fmt.Sprintf("A%d", ai), func() {
					defer done.Add(1)
					var cur string
					defer func() {
						if r := recover(); r != nil {
							mu.Lock()
							panics = append(panics, fmt.Sprintf("%s: %v", cur, r))
							mu.Unlock()
						}
					}()
					type own struct {
						rec *hubConnRec
						rm  func()
						rmd bool
					}
					var mine []*own
					doRm := func(o *own) {
						if o.rmd {
							return
						}
						o.rmd = true
						in := hubIn{K: "rm", Sess: o.rec.sess, Peer: o.rec.peer, Conn: o.rec.conn}
						cur = "rm"
						verifsim.Y("actor/rm", "op")
						call := s.Steps * 2
						o.rm()
						record(ai, in, call, hubOut{})
					}
					for _, op := range script {
						sess := fmt.Sprintf("s%d", op.S)
						peer := fmt.Sprintf("p%d", op.P)
						cur = op.K
						began := time.Now()
						stalledAtStart := s.StallTime
						judged := true
						switch op.K {
						case "hold":
							judged = false
							time.Sleep(60 * time.Second)
						case "pause":
							judged = false
							time.Sleep(time.Second)
						case "flood":
							// addressed messages beyond what the addressee's queue holds; not part of the
							// linearizability history (the reference model has no queue bound)
							judged = false
							for k := 0; k < op.N; k++ {
								mu.Lock()
								msgN++
								id := fmt.Sprintf("m%d", msgN)
								sent[id] = hubIn{K: "sendto", Sess: sess, Peer: peer}
								mu.Unlock()
								verifsim.Y("actor/flood", "op")
								h.SendTo(sess, peer, protocol.Envelope{V: 1, Type: "x", MsgID: id, SessionID: sess})
							}
							floods++
						case "add":
							mu.Lock()
							nextConn++
							rec := &hubConnRec{sess: sess, peer: peer, conn: fmt.Sprintf("c%d", nextConn), mode: op.Mode, unblock: make(chan struct{})}
							conns[rec.conn] = rec
							allConns = append(allConns, rec)
							mu.Unlock()
							nsent := 0
							send := func(env protocol.Envelope) error {
								mu.Lock()
								deliveries = append(deliveries, hubDelivery{conn: rec.conn, msg: env.MsgID})
								mu.Unlock()
								nsent++
								switch rec.mode {
								case "err":
									if nsent >= 2 {
										return fmt.Errorf("broken pipe")
									}
								case "block":
									if nsent >= 2 {
										<-rec.unblock
										return fmt.Errorf("closed")
									}
								}
								return nil
							}
							closeFn := func() { rec.once.Do(func() { close(rec.unblock) }) }
							verifsim.Y("actor/add", "op")
							call := s.Steps * 2
							rm := h.Add(sess, Peer{PeerID: peer, Role: "receiver", ConnID: rec.conn}, send, closeFn)
							record(ai, hubIn{K: "add", Sess: sess, Peer: peer, Conn: rec.conn}, call, hubOut{})
							mine = append(mine, &own{rec: rec, rm: rm})
						case "rm":
							if op.Slot < len(mine) {
								o := mine[op.Slot]
								// the WebSocket handler closes its socket before the deferred remove runs
								o.rec.once.Do(func() { close(o.rec.unblock) })
								doRm(o)
							}
						case "sendto", "bcast", "bcastx":
							mu.Lock()
							msgN++
							id := fmt.Sprintf("m%d", msgN)
							in := hubIn{K: op.K, Sess: sess, Peer: peer}
							sent[id] = in
							mu.Unlock()
							env := protocol.Envelope{V: 1, Type: "x", MsgID: id, SessionID: sess}
							verifsim.Y("actor/"+op.K, "op")
							call := s.Steps * 2
							switch op.K {
							case "sendto":
								ok := h.SendTo(sess, peer, env)
								record(ai, in, call, hubOut{OK: ok})
							case "bcast":
								h.Broadcast(sess, env)
							case "bcastx":
								h.BroadcastExcept(sess, peer, env)
							}
						case "list":
							verifsim.Y("actor/list", "op")
							call := s.Steps * 2
							l := h.List(sess)
							var ps []string
							for _, p := range l {
								ps = append(ps, p.PeerID)
							}
							sort.Strings(ps)
							record(ai, hubIn{K: "list", Sess: sess}, call, hubOut{List: strings.Join(ps, ",")})
						case "closesess":
							verifsim.Y("actor/closesess", "op")
							call := s.Steps * 2
							h.CloseSession(sess)
							record(ai, hubIn{K: "closesess", Sess: sess}, call, hubOut{})
						}
						// no hub operation waits for somebody else's socket: beyond what the drawn
						// machine stalls account for, none takes simulated time
						if took := time.Since(began) - (s.StallTime - stalledAtStart); judged && op.K != "sendto" && took >= 10*time.Second {
							mu.Lock()
							addV("handler-blocked", op.K, fmt.Sprintf("actor %d: %s on %s/%s took %v of simulated time (a peer of session s0 had stopped reading; this operation is not addressed to it)", ai, op.K, sess, peer, took))
							mu.Unlock()
						}
					}
					for _, o := range mine {
						o.rec.once.Do(func() { close(o.rec.unblock) })
						doRm(o)
					}
				})
			}
			outcome := s.Run(func() bool { return int(done.Load()) == len(sp.Actors) }, time.Now().Add(5*time.Minute), 0)
			blocked := s.Blocked()
			// leak check (before the drain changes anything)
			nSess, nBy := 0, 0
			var leakedConns []string
			lockHeld := !h.mu.TryRLock() // a goroutine blocked for good while holding the hub lock
			if !lockHeld {
				nSess, nBy = len(h.sessions), len(h.byPeerID)
				for sid, m := range h.sessions {
					for cid := range m {
						leakedConns = append(leakedConns, sid+"/"+cid)
					}
				}
				h.mu.RUnlock()
			}
			s.Stop()
			verifsim.Watch(nil)
			mu.Lock()
			toClose := append([]*hubConnRec(nil), allConns...) // actors of a deadlocked run may still be adding
			mu.Unlock()
			for _, rec := range toClose {
				rec.once.Do(func() { close(rec.unblock) })
			}
			// writers orphaned by a lost session entry never see their channel closed;
			// close them here so the bubble can end, and report them below.
			time.Sleep(3 * time.Second)
			mu.Lock()
			defer mu.Unlock()
			if outcome != verifsim.Finished {
				deadlocked = true
				sig := "hub:" + sitesOf(blocked)
				if lockHeld {
					sig = "hub-lock-held-forever"
				}
				addV("deadlock", sig, fmt.Sprintf("outcome=%v after %v simulated; hub lock held by a blocked goroutine=%v; waiting: %v", outcome, s.Since(), lockHeld, blocked))
			}
			for _, p := range panics {
				sig := p
				if i := strings.Index(p, ": "); i >= 0 {
					sig = p[:i] + ":" + p[i+2:]
				}
				addV("panic", sig, p)
			}
			if outcome == verifsim.Finished && len(panics) == 0 {
				if nSess != 0 || nBy != 0 {
					sort.Strings(leakedConns)
					addV("leak", fmt.Sprintf("sessions=%v byPeer=%v", nSess > 0, nBy > 0), fmt.Sprintf("after every connection was removed: len(sessions)=%d len(byPeerID)=%d conns=%v", nSess, nBy, leakedConns))
				}
			}
			// routing of delivered envelopes
			for _, d := range deliveries {
				in, ok := sent[d.msg]
				rec := conns[d.conn]
				if !ok || rec == nil {
					addV("misroute", "unknown-message", fmt.Sprintf("%+v", d))
					continue
				}
				if in.Sess != rec.sess {
					addV("misroute", "cross-session", fmt.Sprintf("message %s sent to %s delivered to %s/%s", d.msg, in.Sess, rec.sess, rec.conn))
				}
				if in.K == "sendto" && in.Peer != rec.peer {
					addV("misroute", "wrong-addressee", fmt.Sprintf("message %s for %s delivered to %s", d.msg, in.Peer, rec.peer))
				}
			}
			if len(panics) == 0 && outcome == verifsim.Finished {
				r := porcupine.CheckOperationsTimeout(hubModel, ops, 20*time.Second)
				switch r {
				case porcupine.Illegal:
					addV("not-linearizable", "hub-history", describeOps(ops))
				case porcupine.Unknown:
					res.Counters["porcupine_unknown"]++
				}
			}
			res.Counters["ops"] += int64(len(ops))
			res.Counters["deliveries"] += int64(len(deliveries))
			res.Counters["floods_of_a_stalled_peer"] += int64(floods)
			// let orphaned writers go so that the bubble can end
			if h.mu.TryLock() {
				for _, m := range h.sessions {
					for _, pc := range m {
						pc.closeSend()
					}
				}
				h.mu.Unlock()
			}
		})
	}()
	verifsim.S = nil
	if bubblePanic != "" {
		if strings.Contains(bubblePanic, "deadlock: main bubble goroutine has exited") {
			// after a reported deadlock the goroutines it left behind are a consequence, and
			// whether the teardown gets them to end is not the scheduler's to decide
			if !deadlocked {
				addV("goroutine-leak", "hub-writer", "goroutines still blocked when the run ended: "+firstLine(bubblePanic))
			}
		} else {
			addV("panic", "bubble:"+firstLine(bubblePanic), bubblePanic)
		}
	}
	if s != nil {
		res.LogHash, res.Steps, res.SimTime = s.LogHash, s.Steps, s.Since()
		res.QStates = len(s.QStates)
		res.Counters["stalls"] += int64(s.Stalls)
		res.Nontrivial = s.Steps > 10
		for _, v := range viol {
			v.LogHash = verifsim.HashStr(s.LogHash)
			v.Steps = s.Steps
			v.Trace = s.Log
		}
	}
	res.Violations = viol
	res.Sample = sp
	return
}

func firstLine(s string) string {
	if i := strings.IndexByte(s, '\n'); i >= 0 {
		return s[:i]
	}
	return s
}

func sitesOf(blocked []string) string {
	set := map[string]bool{}
	for _, b := range blocked {
		if i := strings.LastIndexByte(b, '@'); i >= 0 {
			set[b[i+1:]] = true
		}
	}
	var ks []string
	for k := range set {
		ks = append(ks, k)
	}
	sort.Strings(ks)
	return strings.Join(ks, ",")
}

func describeOps(ops []porcupine.Operation) string {
	sort.Slice(ops, func(i, j int) bool { return ops[i].Call < ops[j].Call })
	var b []string
	for _, op := range ops {
		b = append(b, fmt.Sprintf("[%d,%d] A%d %+v -> %+v", op.Call, op.Return, op.ClientId, op.Input, op.Output))
	}
	return strings.Join(b, "; ")
}

var hubT *testing.T

func TestVerif(t *testing.T) {
	e, ok := verifsim.LoadWorkerEnv()
	if !ok {
		t.Skip("not a verif worker")
	}
	hubT = t
	var h verifsim.Harness
	switch e.Prop {
	case "C11":
		h = hubHarness{}
	default:
		t.Fatalf("unknown property %s for package peers", e.Prop)
	}
	if rc := verifsim.WorkerMain(h, e); rc != 0 {
		t.Fatalf("worker exit %d", rc)
	}
}
