package main

// Tier T4, part C12APP: one real `thru host --max-receivers N` and two to four
// real `thru join` processes against the real thruserv. The host's admission
// logic is observed from outside the process: every transfer the host runs owns
// one UDP socket (its prober's; one connection per transfer in these runs), so
// the number of host sockets alive at once is the number of transfers running at
// once; the order in which receivers are started shows in the order in which
// their own sockets appear; a receiver that is never started never exits.
// One receiver may leave (its process is killed, its connections go away) while
// it waits or while it is being served.

import (
	"bytes"
	"context"
	"crypto/sha256"
	"encoding/json"
	"fmt"
	"io"
	"log/slog"
	"net"
	"net/http"
	"os"
	"path/filepath"
	"sort"
	"strings"
	"sync"
	"time"

	"github.com/sheerbytes/sheerbytes/internal/app"
	"github.com/sheerbytes/sheerbytes/internal/transfer"
	"github.com/sheerbytes/sheerbytes/internal/verifsim"
	"github.com/sheerbytes/sheerbytes/internal/wsclient"
)

type multiSpec struct {
	Seed        uint64            `json:"seed"`
	ContentSeed uint64            `json:"content_seed"`
	Strat       verifsim.Strategy `json:"strategy"`
	Files       []appFile         `json:"files"`
	Chunk       int               `json:"chunk"`
	MaxRecv     int               `json:"max_receivers"`
	JoinAtMs    []int             `json:"receiver_join_at_ms"` // one per receiver, increasing by at least 150 ms
	LatMs       []int             `json:"receiver_latency_ms"`
	Leaver      int               `json:"leaver"`          // index of the receiver that leaves, -1: nobody
	LeaveAtMs   int               `json:"leave_after_ms"`  // after its own join
	LeaveHow    string            `json:"leave_how"`       // close | reset
	// Vanish: receivers that have finished disappear without their signaling connection
	// being closed (power cut, cable pulled right after the transfer); otherwise the exiting
	// process' connection is closed by its kernel, the server notices and tells the host
	Vanish bool `json:"finished_receivers_vanish,omitempty"`
}

// healthy: nobody leaves, nobody vanishes (part C03MULTI: several healthy receivers of one host all complete)
type multiHarness struct{ healthy bool }

func (h multiHarness) Gen(r *verifsim.SplitMix, tier string, idx int) any {
	sp := multiSpec{Seed: r.Next(), ContentSeed: r.Next(), Leaver: -1}
	sp.Chunk = []int{256, 1024}[r.Intn(2)]
	for i, n := 0, 1+r.Intn(3); i < n; i++ {
		sp.Files = append(sp.Files, appFile{P: fmt.Sprintf("f%d.bin", i), N: []int{0, 1, sp.Chunk, 3*sp.Chunk + 7, 9 * sp.Chunk}[r.Intn(5)]})
	}
	sp.MaxRecv = 1 + r.Intn(2)
	k := 2 + r.Intn(3)
	at := 0
	for i := 0; i < k; i++ {
		at += 150 + r.Intn(4)*100
		sp.JoinAtMs = append(sp.JoinAtMs, at)
		sp.LatMs = append(sp.LatMs, []int{1, 5, 20}[r.Intn(3)])
	}
	if r.Chance(2, 5) {
		sp.Leaver = r.Intn(k)
		sp.LeaveAtMs = []int{50, 300, 1200, 2500, 6000}[r.Intn(5)]
		sp.LeaveHow = []string{"close", "reset"}[r.Intn(2)]
	}
	sp.Strat = verifsim.Strategy{Kind: []string{"fifo", "rand", "weighted"}[r.Intn(3)], Seed: r.Next(), MaxW: 5, Horizon: 400}
	sp.Vanish = r.Chance(1, 3)
	if h.healthy {
		sp.Leaver, sp.LeaveAtMs, sp.LeaveHow, sp.Vanish = -1, 0, "", false
		sp.MaxRecv = 1 + r.Intn(4)
	}
	return sp
}

func (multiHarness) Decode(raw json.RawMessage) (any, error) {
	var sp multiSpec
	err := json.Unmarshal(raw, &sp)
	return sp, err
}

func (multiHarness) Shrink(spec any) []any {
	sp := spec.(multiSpec)
	var out []any
	if len(sp.Files) > 1 {
		c := sp
		c.Files = sp.Files[:1]
		out = append(out, c)
	}
	if sp.Leaver >= 0 {
		c := sp
		c.Leaver = -1
		out = append(out, c)
	}
	if n := len(sp.JoinAtMs); n > 2 && sp.Leaver < n-1 {
		c := sp
		c.JoinAtMs, c.LatMs = sp.JoinAtMs[:n-1], sp.LatMs[:n-1]
		out = append(out, c)
	}
	if sp.Strat.Kind != "fifo" {
		c := sp
		c.Strat.Kind = "fifo"
		out = append(out, c)
	}
	return out
}

func (multiHarness) Run(spec any) (res verifsim.RunResult) {
	sp := spec.(multiSpec)
	res.Counters = map[string]int64{}
	var viol []*verifsim.Violation
	addV := func(class, sig, detail string) {
		for _, v := range viol {
			if v.Class == class && v.Signature == sig {
				return
			}
		}
		viol = append(viol, &verifsim.Violation{Class: class, Signature: sig, Detail: detail})
	}
	appRunCounter++
	base := filepath.Join(os.Getenv("VERIF_SCRATCH"), fmt.Sprintf("mul%06d", appRunCounter))
	if os.Getenv("VERIF_SCRATCH") == "" {
		base = filepath.Join(os.TempDir(), fmt.Sprintf("verif-mul%06d", appRunCounter))
	}
	os.RemoveAll(base)
	defer os.RemoveAll(base)
	src := filepath.Join(base, "s", "tree")
	os.MkdirAll(src, 0o755)
	k := len(sp.JoinAtMs)
	outs := make([]string, k)
	for i := range outs {
		outs[i] = filepath.Join(base, fmt.Sprintf("r%d", i+1), "out")
		os.MkdirAll(outs[i], 0o755)
	}
	if appWriteTree(src, sp.ContentSeed, sp.Files) != nil {
		res.Skipped = true
		return
	}
	logger := slog.New(slog.NewTextHandler(io.Discard, nil))
	flags := []string{"--ws-connects-per-min", "0", "--session-creates-per-min", "0"}

	var mu sync.Mutex
	exitAt := make([]time.Duration, k)   // when receiver i's process was first seen gone
	startedAt := make([]time.Duration, k) // when receiver i opened its socket (= was started), 0: never
	promptAt := make([]time.Duration, k)  // when receiver i was asked to accept
	exitCode := make([]int, k)
	exited := make([]bool, k)
	leftAt := time.Duration(0)
	var outcome verifsim.Outcome
	var joinCode string
	var waitSnapshot []string
	nodeIdx := func(node string) int {
		var i int
		if _, err := fmt.Sscanf(node, "R%d", &i); err == nil && i >= 1 && i <= k {
			return i - 1
		}
		return -1
	}

	verifsim.RecoverPanics, verifsim.ExitedStayDead = true, true
	defer func() { verifsim.RecoverPanics, verifsim.ExitedStayDead = false, false }()
	s, bubblePanic := runWorld(sp.Seed, sp.Strat, 65536, flags, false, func(w *world) {
		start := time.Now()
		stopPool := transfer.VerifResetReadPool(2)
		defer stopPool()
		unet := verifsim.NewUDPNet(sp.Seed)
		type host struct {
			name  string
			ip    net.IP
			lat   time.Duration
			socks []*verifsim.UDPSock
			port  int
		}
		hosts := map[string]*host{"S": {name: "S", ip: net.IPv4(10, 1, 0, 1), lat: time.Millisecond, port: 41000}}
		var names []string
		for i := 0; i < k; i++ {
			n := fmt.Sprintf("R%d", i+1)
			hosts[n] = &host{name: n, ip: net.IPv4(10, 2, byte(i), 1), lat: time.Duration(sp.LatMs[i]) * time.Millisecond, port: 42000 + 100*i}
			names = append(names, n)
		}
		names = append(names, "S")
		sort.Strings(names)
		var netMu sync.Mutex
		newSock := func(node string) *verifsim.UDPSock {
			netMu.Lock()
			defer netMu.Unlock()
			h := hosts[node]
			if h == nil {
				h = hosts["S"]
			}
			h.port++
			x := unet.NewSock(&net.UDPAddr{IP: h.ip, Port: h.port})
			for _, n := range names {
				hy := hosts[n]
				if hy == h || (h.name != "S" && hy.name != "S") {
					continue // receivers do not talk to each other
				}
				for _, y := range hy.socks {
					if y.Closed() {
						continue
					}
					l := h.lat
					if hy.name != "S" {
						l = hy.lat
					}
					unet.AddPath(x, y, &verifsim.UDPPath{Alias: &net.UDPAddr{IP: hy.ip, Port: y.LocalAddr().(*net.UDPAddr).Port}, Up: l, Down: l})
					unet.AddPath(y, x, &verifsim.UDPPath{Alias: &net.UDPAddr{IP: h.ip, Port: h.port}, Up: l, Down: l})
				}
			}
			h.socks = append(h.socks, x)
			mu.Lock()
			if i := nodeIdx(h.name); i >= 0 && startedAt[i] == 0 {
				startedAt[i] = time.Since(start)
			}
			mu.Unlock()
			return x
		}
		verifsim.World = &verifsim.AppWorld{
			ListenUDP: func(node string, laddr *net.UDPAddr) (verifsim.UDPConn, error) { return newSock(node), nil },
			Interfaces: func(node string) []verifsim.Iface {
				h := hosts[node]
				if h == nil {
					return nil
				}
				return []verifsim.Iface{{Name: "eth0", Flags: net.FlagUp, IPs: []net.IP{h.ip}}}
			},
			Stdin: func(node string) io.Reader {
				if i := nodeIdx(node); i >= 0 {
					mu.Lock()
					if promptAt[i] == 0 {
						promptAt[i] = time.Since(start)
					}
					mu.Unlock()
					return strings.NewReader("y\ny\n")
				}
				return strings.NewReader("")
			},
		}
		defer func() { verifsim.World = nil }()
		closeSocks := func(node string) {
			netMu.Lock()
			defer netMu.Unlock()
			if h := hosts[node]; h != nil {
				for _, x := range h.socks {
					x.Close()
				}
			}
		}
		// signaling connections per node: an exiting process' are closed by its kernel
		wsConns := map[string][]net.Conn{}
		w.s.OnCrash = func(node string) {
			closeSocks(node)
			if sp.Vanish {
				return
			}
			netMu.Lock()
			cs := append([]net.Conn(nil), wsConns[node]...)
			netMu.Unlock()
			for _, c := range cs {
				if tc, ok := c.(*verifsim.TCPConn); ok {
					tc.CloseNow()
				}
			}
		}
		var httpBuf bytes.Buffer
		var httpMu sync.Mutex
		http.DefaultTransport = &http.Transport{DisableKeepAlives: true, DialContext: func(ctx context.Context, network, addr string) (net.Conn, error) {
			c, err := w.tnet.Dial(ctx, "10.0.9.9", addr)
			if err != nil {
				return nil, err
			}
			return teeConn{Conn: c, mu: &httpMu, buf: &httpBuf}, nil
		}}
		wsclient.VerifSetNetDial(func(ctx context.Context, network, addr string) (net.Conn, error) {
			node := verifsim.Node()
			ip := "10.0.9.9"
			if i := nodeIdx(node); i >= 0 {
				ip = fmt.Sprintf("10.0.9.%d", 20+i)
			}
			c, err := w.tnet.Dial(ctx, ip, addr)
			if err == nil {
				netMu.Lock()
				wsConns[node] = append(wsConns[node], c)
				netMu.Unlock()
			}
			return c, err
		})
		ctxS, cancelS := context.WithCancel(context.Background())
		defer cancelS()
		verifsim.Go("S", func() {
			_ = app.RunSnapshotSender(ctxS, logger, app.SnapshotSenderConfig{
				ServerURL: srvURL, Paths: []string{src}, MaxReceivers: sp.MaxRecv, ReceiverTTL: 10 * time.Minute,
				ParallelConnections: 1, StunServers: []string{"10.9.9.9:3478"},
				TransferOpts: transfer.Options{ChunkSize: uint32(sp.Chunk), ParallelFiles: 2},
			})
		})
		getCode := func() string {
			httpMu.Lock()
			defer httpMu.Unlock()
			b := httpBuf.String()
			i := strings.Index(b, `"join_code":"`)
			if i < 0 {
				return ""
			}
			rest := b[i+13:]
			if j := strings.IndexByte(rest, '"'); j > 0 {
				return rest[:j]
			}
			return ""
		}
		w.run(func() bool { return getCode() != "" }, 30*time.Second)
		joinCode = getCode()
		if joinCode == "" {
			addV("harness-panic", "app:no-join-code", "the sender did not create a session within 30 simulated seconds")
			return
		}
		w.run(func() bool { return false }, 2*time.Second)
		t0 := time.Now()
		var cancels []context.CancelFunc
		for i := 0; i < k; i++ {
			i := i
			ctxR, cancelR := context.WithCancel(context.Background())
			cancels = append(cancels, cancelR)
			node := fmt.Sprintf("R%d", i+1)
			verifsim.Go(node, func() {
				time.Sleep(time.Until(t0.Add(time.Duration(sp.JoinAtMs[i]) * time.Millisecond)))
				_ = app.RunSnapshotReceiver(ctxR, logger, app.SnapshotReceiverConfig{
					ServerURL: srvURL, JoinCode: joinCode, OutDir: outs[i], ParallelConnections: 1, StunServers: []string{"10.9.9.9:3478"},
				})
			})
			if sp.Leaver == i {
				verifsim.Go("X", func() {
					time.Sleep(time.Until(t0.Add(time.Duration(sp.JoinAtMs[i]+sp.LeaveAtMs) * time.Millisecond)))
					if _, gone := w.s.Exited(node); gone {
						return
					}
					verifsim.Y("multi.leave", "act:leave")
					mu.Lock()
					leftAt = time.Since(start)
					mu.Unlock()
					w.s.Kill(node)
					closeSocks(node)
					netMu.Lock()
					cs := append([]net.Conn(nil), wsConns[node]...)
					netMu.Unlock()
					for _, c := range cs {
						if tc, ok := c.(*verifsim.TCPConn); ok && sp.LeaveHow == "reset" {
							tc.Reset()
						} else {
							c.Close()
						}
					}
				})
			}
		}
		outcome = w.run(func() bool {
			all := true
			for i := 0; i < k; i++ {
				_, gone := w.s.Exited(fmt.Sprintf("R%d", i+1))
				if gone || w.s.IsDead(fmt.Sprintf("R%d", i+1)) {
					mu.Lock()
					if exitAt[i] == 0 {
						exitAt[i] = time.Since(start)
					}
					mu.Unlock()
					continue
				}
				all = false
			}
			return all
		}, 5*time.Minute)
		for i := 0; i < k; i++ {
			exitCode[i], exited[i] = w.s.Exited(fmt.Sprintf("R%d", i+1))
		}
		for _, x := range w.s.Waiting() {
			if strings.HasPrefix(x, "S") {
				waitSnapshot = append(waitSnapshot, x)
			}
		}
		cancelS()
		for _, c := range cancels {
			c()
		}
		w.run(func() bool { return false }, 5*time.Second)
		for _, n := range names {
			closeSocks(n)
		}
	})
	if bubblePanic != "" && !strings.Contains(bubblePanic, "deadlock: main bubble goroutine has exited") {
		addV("panic", "app-bubble:"+firstLineSrv(bubblePanic), bubblePanic)
	}
	if s != nil {
		for node, msg := range s.Panics {
			addV("process-panic", node+":"+firstLineSrv(msg), fmt.Sprintf("the %s process panicked: %s", node, msg))
		}
	}
	// ---- judgement ----
	want := map[string]string{}
	for _, f := range sp.Files {
		b := appContent(sp.ContentSeed, f.P, f.N)
		want["tree/"+f.P] = fmt.Sprintf("%d:%x", len(b), sha256.Sum256(b))
	}
	mu.Lock()
	defer mu.Unlock()
	left := sp.Leaver >= 0 && leftAt > 0
	var facts []string
	// transfers running at the same time, as seen from outside: a receiver is being served
	// from the moment it opens its socket (it was told to start) until its process is gone;
	// 200 ms are taken off the end for the hand-over (the host frees the slot when its side
	// of the transfer returns, the receiver's process exits a round trip later)
	type iv struct{ from, to time.Duration }
	var ivs []iv
	for i := 0; i < k; i++ {
		if startedAt[i] == 0 {
			continue
		}
		to := exitAt[i]
		if to == 0 {
			to = 1 << 60
		}
		to -= 200 * time.Millisecond
		if to > startedAt[i] {
			ivs = append(ivs, iv{startedAt[i], to})
		}
	}
	maxAlive := 0
	for _, a := range ivs {
		n := 0
		for _, b := range ivs {
			if b.from <= a.from && a.from < b.to {
				n++
			}
		}
		if n > maxAlive {
			maxAlive = n
		}
	}
	facts = append(facts, fmt.Sprintf("max=%d receivers=%d max_alive=%d left=%v", sp.MaxRecv, k, maxAlive, left))
	res.Counters["multi_runs"]++
	if left {
		res.Counters["a_receiver_left"]++
		if startedAt[sp.Leaver] > 0 && startedAt[sp.Leaver] < leftAt {
			res.Counters["left_while_being_served"]++
		} else {
			res.Counters["left_before_being_started"]++
		}
	}
	if k > sp.MaxRecv {
		res.Counters["more_receivers_than_slots"]++
	}
	// 1. never more transfers at once than max-receivers
	if maxAlive > sp.MaxRecv {
		addV("too-many-transfers", fmt.Sprintf("app:max=%d", sp.MaxRecv), fmt.Sprintf("thru host --max-receivers %d with %d receivers: %d receivers were being served at the same time (started at %v ms, gone at %v ms)", sp.MaxRecv, k, maxAlive, msOf(startedAt), msOf(exitAt)))
	}
	// 2. everybody who stays is served: exit 0 with the host's tree
	for i := 0; i < k; i++ {
		if i == sp.Leaver && left {
			continue
		}
		facts = append(facts, fmt.Sprintf("r%d exited=%v code=%d", i+1, exited[i], exitCode[i]))
		switch {
		case !exited[i]:
			how := "was never started"
			if startedAt[i] > 0 {
				how = "was started but did not finish"
			}
			addV("receiver-never-served", fmt.Sprintf("app:%s", strings.ReplaceAll(how, " ", "-")), fmt.Sprintf("thru host --max-receivers %d, %d receivers (joining at %v ms; leaver: %d at +%d ms): receiver %d %s within 5 simulated minutes (%v); waiting: %v", sp.MaxRecv, k, sp.JoinAtMs, sp.Leaver+1, sp.LeaveAtMs, i+1, how, outcome, waitSnapshot))
		case exitCode[i] != 0:
			addV("receiver-failed", "app:multi", fmt.Sprintf("receiver %d of %d exited with status %d on a healthy network (max-receivers %d)", i+1, k, exitCode[i], sp.MaxRecv))
		default:
			got := appDigest(outs[i])
			for p, v := range want {
				if got[p] != v {
					addV("tree-differs", "app:multi", fmt.Sprintf("receiver %d exited 0 but %s is missing or differs", i+1, p))
					break
				}
			}
		}
	}
	// 3. started in the order they accepted (prompts are at least 150 ms apart)
	for i := 0; i < k; i++ {
		for j := i + 1; j < k; j++ {
			if startedAt[i] > 0 && startedAt[j] > 0 && promptAt[i] > 0 && promptAt[j] > 0 && promptAt[j]-promptAt[i] >= 100*time.Millisecond && startedAt[j] < startedAt[i] {
				if i == sp.Leaver || j == sp.Leaver {
					continue
				}
				addV("started-out-of-order", "app:multi", fmt.Sprintf("receiver %d accepted at %v and receiver %d at %v, but %d was started at %v, before %d (%v); max-receivers %d", i+1, promptAt[i].Round(time.Millisecond), j+1, promptAt[j].Round(time.Millisecond), j+1, startedAt[j].Round(time.Millisecond), i+1, startedAt[i].Round(time.Millisecond), sp.MaxRecv))
			}
		}
	}
	res.Sample = map[string]any{"spec": sp, "max_alive": maxAlive, "started_at_ms": msOf(startedAt), "gone_at_ms": msOf(exitAt), "prompt_at_ms": msOf(promptAt), "exited": exited, "exit_codes": exitCode, "outcome": outcome.String()}
	res.LogHash = verifsim.Mix(sp.Seed, strings.Join(facts, ";"))
	if s != nil {
		res.Steps, res.SimTime, res.QStates = s.Steps, s.Since(), len(s.QStates)
	}
	res.Nontrivial = res.Steps > 50
	for _, v := range viol {
		v.LogHash, v.Steps, v.Trace = verifsim.HashStr(res.LogHash), res.Steps, facts
	}
	sort.Slice(viol, func(i, j int) bool { return viol[i].Class+viol[i].Signature < viol[j].Class+viol[j].Signature })
	res.Violations = viol
	return
}

func msOf(d []time.Duration) []int64 {
	out := make([]int64, len(d))
	for i, x := range d {
		out[i] = x.Milliseconds()
	}
	return out
}
