package main

// C10: signaling isolation, identity and order, on the real server: scripted
// WebSocket clients in several sessions; per-client receive logs are compared
// with a reference routing model with interval (must / may / must-not) semantics.

import (
	"encoding/json"
	"fmt"
	"net/url"
	"sort"
	"strings"
	"sync"
	"sync/atomic"
	"time"

	"github.com/gorilla/websocket"
	"github.com/sheerbytes/sheerbytes/internal/verifsim"
	"github.com/sheerbytes/sheerbytes/pkg/protocol"
)

type c10Act struct {
	K  string `json:"k"`            // send bcast spoof xsess garbage noid close pause resume rst sleep
	To int    `json:"to,omitempty"` // addressee: client index within the author's session (send/spoof/xsess); -1 = unknown peer
	N  int    `json:"n,omitempty"`  // how many messages
}

type c10Client struct {
	Sess int      `json:"session"`
	ID   string   `json:"peer_id"`
	Role string   `json:"role"`
	Acts []c10Act `json:"acts"`
}

type c10Spec struct {
	Seed     uint64            `json:"seed"`
	Strat    verifsim.Strategy `json:"strategy"`
	Sessions int               `json:"sessions"`
	Clients  []c10Client       `json:"clients"`
	SegMax   int               `json:"seg_max"`
	Flood    bool              `json:"flood,omitempty"` // the server's sockets have a 16 KiB send buffer in this run
}

type c10Harness struct{}

func (c10Harness) Gen(r *verifsim.SplitMix, tier string, idx int) any {
	sp := c10Spec{Seed: r.Next(), Sessions: 1 + r.Intn(3), SegMax: []int{7, 200, 1400, 65536}[r.Intn(4)]}
	kinds := []string{"rand", "weighted", "pct", "fifo"}
	sp.Strat = verifsim.Strategy{Kind: kinds[r.Intn(len(kinds))], Seed: r.Next(), D: r.Intn(4), Horizon: 1500, MaxW: 2 + r.Intn(8)}
	for s := 0; s < sp.Sessions; s++ {
		n := 1 + r.Intn(4)
		for i := 0; i < n; i++ {
			c := c10Client{Sess: s, ID: fmt.Sprintf("p%d", i), Role: "receiver"}
			if i == 0 {
				c.Role = "sender"
				c.ID = "host"
			}
			if i > 1 && r.Chance(1, 6) {
				c.ID = "p1" // duplicate peer id: a reconnect that replaces the earlier connection
			} else if i > 0 && r.Chance(1, 8) {
				// a different peer whose id differs from another's only in the case of a letter
				c.ID = []string{"P1", "Host", "P2", "HOST"}[r.Intn(4)]
			} else if i > 0 && r.Chance(1, 10) {
				// an id that JSON cannot carry (bytes that are not UTF-8), or the replacement
				// character such bytes decay to; written in its URL-escaped spelling
				c.ID = []string{"%FF", "%EF%BF%BD", "p%FFx", "p%EF%BF%BDx", "%C3%28"}[r.Intn(5)]
			}
			na := 1 + r.Intn(6)
			for a := 0; a < na; a++ {
				switch x := r.Intn(100); {
				case x < 35:
					c.Acts = append(c.Acts, c10Act{K: "send", To: r.Intn(n), N: 1 + r.Intn(4)})
				case x < 55:
					c.Acts = append(c.Acts, c10Act{K: "bcast", N: 1 + r.Intn(3)})
				case x < 63:
					c.Acts = append(c.Acts, c10Act{K: "spoof", To: r.Intn(n), N: 1})
				case x < 70:
					c.Acts = append(c.Acts, c10Act{K: "xsess", To: r.Intn(n), N: 1})
				case x < 74:
					c.Acts = append(c.Acts, c10Act{K: "send", To: -1, N: 1})
				case x < 76:
					c.Acts = append(c.Acts, c10Act{K: "send", To: -2, N: 1}) // a connected peer's id in another case: nobody by that name
				case x < 82:
					c.Acts = append(c.Acts, c10Act{K: []string{"garbage", "noid"}[r.Intn(2)]})
				case x < 88:
					c.Acts = append(c.Acts, c10Act{K: "sleep"})
				case x < 92:
					c.Acts = append(c.Acts, c10Act{K: "pause"}, c10Act{K: "sleep"}, c10Act{K: "resume"})
				case x < 96 && i > 0:
					c.Acts = append(c.Acts, c10Act{K: "close"})
					a = na
				case x < 98 && i > 0:
					c.Acts = append(c.Acts, c10Act{K: "rst"})
					a = na
				}
			}
			sp.Clients = append(sp.Clients, c)
		}
	}
	if r.Chance(1, 8) && len(sp.Clients) >= 2 {
		// one client floods another of its session (the target only reads)
		ci := r.Intn(len(sp.Clients))
		sp.Clients[ci].Acts = append([]c10Act{{K: "sleep"}, {K: "flood", To: r.Intn(4), N: 380 + r.Intn(200)}}, sp.Clients[ci].Acts...)
		sp.Flood = true
	}
	return sp
}

func (c10Harness) Decode(raw json.RawMessage) (any, error) {
	var sp c10Spec
	err := json.Unmarshal(raw, &sp)
	return sp, err
}

func (c10Harness) Shrink(spec any) []any {
	sp := spec.(c10Spec)
	var out []any
	clone := func() c10Spec {
		c := sp
		c.Clients = make([]c10Client, len(sp.Clients))
		for i := range sp.Clients {
			c.Clients[i] = sp.Clients[i]
			c.Clients[i].Acts = append([]c10Act(nil), sp.Clients[i].Acts...)
		}
		return c
	}
	for i := range sp.Clients {
		if sp.Clients[i].Role == "sender" {
			continue
		}
		c := clone()
		c.Clients = append(c.Clients[:i], c.Clients[i+1:]...)
		out = append(out, c)
	}
	for i := range sp.Clients {
		for a := range sp.Clients[i].Acts {
			c := clone()
			c.Clients[i].Acts = append(c.Clients[i].Acts[:a], c.Clients[i].Acts[a+1:]...)
			out = append(out, c)
		}
	}
	for i := range sp.Clients {
		for a, act := range sp.Clients[i].Acts {
			if act.N > 1 {
				c := clone()
				c.Clients[i].Acts[a].N = 1
				out = append(out, c)
			}
		}
	}
	if sp.SegMax != 65536 {
		c := clone()
		c.SegMax = 65536
		out = append(out, c)
	}
	if sp.Strat.Kind != "fifo" {
		c := clone()
		c.Strat.Kind = "fifo"
		out = append(out, c)
	}
	return out
}

type c10Msg struct {
	token    string
	author   int
	to       string // "" = broadcast
	sendStep int
	kind     string
}

type c10State struct {
	connected  bool
	listStep   int // step at which the client had received its peer_list (0 = never)
	closedStep int // step at which the script closed/reset it (0 = never)
	dialStatus int
	log        *wsLog
	sessID     string
	tcp        *verifsim.TCPConn // the client's end of its connection
}

func (c10Harness) Run(spec any) (res verifsim.RunResult) {
	sp := spec.(c10Spec)
	// an id with a '%' is the URL spelling of the identity the peer connects with
	wire := make([]string, len(sp.Clients))
	sp.Clients = append([]c10Client(nil), sp.Clients...)
	for i, c := range sp.Clients {
		wire[i] = c.ID
		if strings.Contains(c.ID, "%") {
			if u, err := url.QueryUnescape(c.ID); err == nil {
				sp.Clients[i].ID = u
			}
		}
	}
	res.Counters = map[string]int64{}
	var viol []*verifsim.Violation
	addV := func(class, sig, detail string) {
		for _, v := range viol {
			if v.Class == class && v.Signature == sig {
				return
			}
		}
		viol = append(viol, &verifsim.Violation{Class: class, Signature: sig, Detail: detail})
	}
	flags := []string{"--ws-connects-per-min", "0", "--session-creates-per-min", "0", "--ws-idle-timeout", "0", "--ws-msgs-per-sec", "0", "--max-receivers-per-sender", "0"}
	states := make([]*c10State, len(sp.Clients))
	for i := range states {
		states[i] = &c10State{}
	}
	var mu sync.Mutex
	var msgs []c10Msg
	byToken := map[string]*c10Msg{}
	var outcome verifsim.Outcome
	var done atomic.Int32
	s, bubblePanic := runWorld(sp.Seed, sp.Strat, sp.SegMax, flags, false, func(w *world) {
		if sp.Flood {
			w.tnet.SendBuf = 16 << 10
		}
		codes := make([]sessionInfo, sp.Sessions)
		ready := make(chan struct{})
		verifsim.Go("SETUP", func() {
			defer close(ready)
			for i := range codes {
				si, err := w.createSession("10.0.3.1", "")
				if err != nil || si.Status != 201 {
					addV("session-create-failed", "c10", fmt.Sprintf("status=%d err=%v", si.Status, err))
					return
				}
				codes[i] = si
			}
		})
		// peers of one session, by index within the session
		bySess := map[int][]int{}
		for i, c := range sp.Clients {
			bySess[c.Sess] = append(bySess[c.Sess], i)
		}
		tokenN := 0
		for ci := range sp.Clients {
			ci := ci
			cl := sp.Clients[ci]
			st := states[ci]
			verifsim.Go(fmt.Sprintf("P%d", ci), func() {
				defer done.Add(1)
				<-ready
				si := codes[cl.Sess]
				if si.Code == "" {
					return
				}
				st.sessID = si.ID
				conn, status, _, _ := w.wsDial(fmt.Sprintf("10.0.5.%d", ci+1), wsURL(si.Code, wire[ci], cl.Role, ""))
				st.dialStatus = status
				if conn == nil {
					return
				}
				st.connected = true
				if tc, ok := conn.UnderlyingConn().(*verifsim.TCPConn); ok {
					mu.Lock()
					st.tcp = tc
					mu.Unlock()
				}
				st.log = w.startReader(fmt.Sprintf("P%d>read", ci), conn)
				for i := 0; i < 1000; i++ {
					envs, closed := st.log.snapshot()
					if len(envs) > 0 || closed {
						break
					}
					time.Sleep(5 * time.Millisecond)
				}
				st.log.mu.Lock()
				if len(st.log.steps) > 0 {
					st.listStep = st.log.steps[0]
				}
				st.log.mu.Unlock()
				write := func(b []byte) {
					conn.SetWriteDeadline(time.Now().Add(5 * time.Second))
					_ = conn.WriteMessage(websocket.TextMessage, b)
				}
				sendEnv := func(kind, to, from, sess string) {
					// the addressee is the name as JSON carries it (bytes that are not UTF-8
					// cannot be written): that is whom the author named
					if jb, err := json.Marshal(to); err == nil {
						_ = json.Unmarshal(jb, &to)
					}
					mu.Lock()
					tokenN++
					tok := fmt.Sprintf("c%d-%d", ci, tokenN)
					m := c10Msg{token: tok, author: ci, to: to, kind: kind}
					mu.Unlock()
					env := protocol.Envelope{V: 1, Type: "x-test", MsgID: tok, To: to, From: from, SessionID: sess}
					b, _ := json.Marshal(env)
					m.sendStep = w.s.Steps
					mu.Lock()
					msgs = append(msgs, m)
					byToken[tok] = &msgs[len(msgs)-1]
					mu.Unlock()
					write(b)
				}
				peerName := func(k int) string {
					if k == -2 {
						// the id of the session's first peer with the case of its letters swapped
						id := sp.Clients[bySess[cl.Sess][0]].ID
						if up := strings.ToUpper(id); up != id {
							return up
						}
						return strings.ToLower(id)
					}
					if k < 0 {
						return "nobody-by-that-name"
					}
					members := bySess[cl.Sess]
					return sp.Clients[members[k%len(members)]].ID
				}
				pausedSelf := false
				for _, a := range cl.Acts {
					// every act is a step of the schedule: clients woken by the same clock tick
					// must not race each other outside the scheduler's view
					verifsim.Y("c10.act", "act:"+a.K)
					switch a.K {
					case "send":
						for k := 0; k < a.N; k++ {
							sendEnv("send", peerName(a.To), "", "")
						}
					case "bcast":
						for k := 0; k < a.N; k++ {
							sendEnv("bcast", "", "", "")
						}
					case "spoof":
						sendEnv("spoof", peerName(a.To), "host", "")
					case "xsess":
						other := codes[(cl.Sess+1)%len(codes)].ID
						sendEnv("xsess", peerName(a.To), "", other)
					case "garbage":
						write([]byte(`{"v":1,"type":"x-test","msg_id":`))
					case "noid":
						write([]byte(`{"v":1,"type":"x-test"}`))
					case "flood":
						// a burst to one peer whose path from the server is stalled meanwhile: the
						// server's writer blocks on the full socket, the peer's queue in the hub
						// fills and overflows. What overflows may be lost; what arrives must be in
						// the author's order, once.
						members := bySess[cl.Sess]
						target := members[a.To%len(members)]
						mu.Lock()
						ttcp := states[target].tcp
						mu.Unlock()
						if target == ci || ttcp == nil {
							break
						}
						ttcp.Peer().SetPaused(true)
						for k := 0; k < a.N; k++ {
							sendEnv("flood", sp.Clients[target].ID, "", "")
						}
						time.Sleep(200 * time.Millisecond)
						verifsim.Y("c10.act", "act:flood-heal")
						ttcp.Peer().SetPaused(false)
						for k := 0; k < 5; k++ {
							sendEnv("flood", sp.Clients[target].ID, "", "")
							time.Sleep(10 * time.Millisecond)
						}
						res.Counters["floods"]++
					case "sleep":
						time.Sleep(50 * time.Millisecond)
					case "pause", "resume":
						// slow reader: deliveries from the server to this client are held
						if tc, ok := conn.UnderlyingConn().(*verifsim.TCPConn); ok {
							tc.Peer().SetPaused(a.K == "pause")
							pausedSelf = a.K == "pause"
						}
					case "close":
						st.closedStep = w.s.Steps
						conn.Close()
					case "rst":
						st.closedStep = w.s.Steps
						if tc, ok := conn.UnderlyingConn().(*verifsim.TCPConn); ok {
							tc.Reset()
						}
					}
				}
				// a path this client stalled itself always heals before the end of the run
				// (a flooder undoes its own stall of the target)
				if tc, ok := conn.UnderlyingConn().(*verifsim.TCPConn); ok && pausedSelf {
					verifsim.Y("c10.act", "act:heal")
					tc.Peer().SetPaused(false)
				}
			})
		}
		outcome = w.run(func() bool { return int(done.Load()) == len(sp.Clients) }, 5*time.Minute)
		// let the server finish routing everything that was sent
		w.settle(30 * time.Second)
		res.Counters["writes_blocked_on_full_send_buffer"] += int64(w.tnet.SendBlocks)
	})
	if bubblePanic != "" && !strings.Contains(bubblePanic, "deadlock: main bubble goroutine has exited") {
		addV("panic", "bubble:"+firstLineSrv(bubblePanic), bubblePanic)
	}
	if outcome != verifsim.Finished {
		addV("scenario-hang", "c10", fmt.Sprintf("clients did not finish (%v): %v", outcome, s.Waiting()))
	} else {
		// ---- evaluation ----
		idCount := map[string]int{} // "sess/id" -> connections that ever used it
		for i, c := range sp.Clients {
			if states[i].connected {
				idCount[fmt.Sprintf("%d/%s", c.Sess, c.ID)]++
			}
		}
		received := make([]map[string]int, len(sp.Clients)) // token -> position
		for xi, st := range states {
			received[xi] = map[string]int{}
			if st.log == nil {
				continue
			}
			envs, _ := st.log.snapshot()
			lastPos := map[int]int{} // author -> last message ordinal seen
			for pos, e := range envs {
				if e.Type == protocol.TypeError {
					var pe protocol.Error
					_ = e.DecodePayload(&pe)
					if pe.Code == "peer_not_found" {
						res.Counters["peer_not_found_replies"]++
						mine := false
						for _, m := range msgs {
							if m.author == xi && m.to != "" && strings.HasSuffix(pe.Message, ": "+m.to) {
								mine = true
							}
						}
						if !mine {
							addV("error-to-wrong-peer", "peer_not_found", fmt.Sprintf("client %d (%s) received %q but never addressed that peer", xi, sp.Clients[xi].ID, pe.Message))
						}
					}
					continue
				}
				if e.Type != "x-test" {
					continue
				}
				m := byToken[e.MsgID]
				if m == nil {
					addV("unknown-message", "token", fmt.Sprintf("client %d received message id %q that nobody sent", xi, e.MsgID))
					continue
				}
				res.Counters["messages_delivered"]++
				if m.kind == "flood" {
					res.Counters["flood_messages_delivered"]++
				}
				a := sp.Clients[m.author]
				x := sp.Clients[xi]
				if a.Sess != x.Sess {
					addV("cross-session-delivery", m.kind, fmt.Sprintf("message %s by client %d (session %d) was delivered to client %d (session %d)", m.token, m.author, a.Sess, xi, x.Sess))
				}
				if e.From != a.ID {
					addV("wrong-from", m.kind, fmt.Sprintf("message %s written by %q arrived with from=%q", m.token, a.ID, e.From))
				}
				if m.to != "" && x.ID != m.to {
					addV("wrong-addressee", m.kind, fmt.Sprintf("message %s addressed to %q was delivered to %q", m.token, m.to, x.ID))
				}
				if m.to == "" && xi == m.author {
					addV("broadcast-echoed", m.kind, fmt.Sprintf("broadcast %s was delivered back to its author (client %d)", m.token, xi))
				}
				if _, dup := received[xi][m.token]; dup {
					addV("duplicate-delivery", m.kind, fmt.Sprintf("message %s delivered twice to client %d", m.token, xi))
				}
				received[xi][m.token] = pos
				var ord int
				fmt.Sscanf(m.token[strings.IndexByte(m.token, '-')+1:], "%d", &ord)
				if prev, ok := lastPos[m.author]; ok && ord < prev {
					addV("reordered", m.kind, fmt.Sprintf("client %d received %s after a later message of the same author", xi, m.token))
				}
				lastPos[m.author] = ord
			}
		}
		// must-deliver
		for _, m := range msgs {
			if sp.Flood {
				break // a queue that overflows loses messages: everything is 'may' in such a run
			}
			a := sp.Clients[m.author]
			ast := states[m.author]
			if ast.closedStep != 0 || !ast.connected || ast.listStep == 0 {
				continue // the author went away or was never routable: may
			}
			if idCount[fmt.Sprintf("%d/%s", a.Sess, a.ID)] > 1 {
				continue
			}
			unknown := m.to != "" && idCount[fmt.Sprintf("%d/%s", a.Sess, m.to)] == 0
			if unknown {
				// the author must be told
				if ast.log != nil {
					envs, _ := ast.log.snapshot()
					told := false
					for _, e := range envs {
						if e.Type == protocol.TypeError {
							var pe protocol.Error
							_ = e.DecodePayload(&pe)
							if pe.Code == "peer_not_found" && strings.HasSuffix(pe.Message, ": "+m.to) {
								told = true
							}
						}
					}
					if !told {
						addV("unknown-addressee-not-reported", m.kind, fmt.Sprintf("message %s to unknown peer %q: the author (client %d, still connected) received no peer_not_found", m.token, m.to, m.author))
					}
				}
				continue
			}
			for xi, x := range sp.Clients {
				xst := states[xi]
				if x.Sess != a.Sess || xi == m.author || !xst.connected {
					continue
				}
				if m.to != "" && x.ID != m.to {
					continue
				}
				if idCount[fmt.Sprintf("%d/%s", x.Sess, x.ID)] > 1 {
					continue // replaced connections: may
				}
				if xst.closedStep != 0 || xst.listStep == 0 || xst.listStep >= m.sendStep {
					continue // not (yet / any more) connected for the whole life of the message: may
				}
				res.Counters["must_deliver_checked"]++
				if _, ok := received[xi][m.token]; !ok {
					addV("message-lost", m.kind, fmt.Sprintf("message %s (%s to %q) by client %d was not delivered to client %d (%s), which was connected before it was sent and kept reading", m.token, m.kind, m.to, m.author, xi, x.ID))
				}
			}
		}
		res.Counters["messages_sent"] += int64(len(msgs))
		for _, m := range msgs {
			if m.kind == "flood" {
				res.Counters["flood_messages_sent"]++
			}
		}
	}
	if s != nil {
		res.LogHash, res.Steps, res.SimTime, res.QStates = s.LogHash, s.Steps, s.Since(), len(s.QStates)
		res.Nontrivial = s.Steps > 50
		for _, v := range viol {
			v.LogHash, v.Steps, v.Trace = verifsim.HashStr(s.LogHash), s.Steps, s.Log
		}
	}
	sort.Slice(viol, func(i, j int) bool { return viol[i].Class+viol[i].Signature < viol[j].Class+viol[j].Signature })
	res.Violations = viol
	res.Sample = sp
	return
}
