package main

// C16: real client functions against the real server under every documented
// configuration (limits / timeouts at default, small, 0; TURN on/off).

import (
	"context"
	"crypto/hmac"
	"crypto/sha1"
	"encoding/base64"
	"encoding/json"
	"fmt"
	"io"
	"log/slog"
	"strconv"
	"strings"
	"sync/atomic"
	"time"

	"github.com/sheerbytes/sheerbytes/internal/app"
	"github.com/sheerbytes/sheerbytes/internal/clienthttp"
	"github.com/sheerbytes/sheerbytes/internal/ice"
	"github.com/sheerbytes/sheerbytes/internal/verifsim"
	"github.com/sheerbytes/sheerbytes/internal/wsclient"
	"github.com/sheerbytes/sheerbytes/pkg/protocol"
)

type c16Spec struct {
	Seed    uint64            `json:"seed"`
	Strat   verifsim.Strategy `json:"strategy"`
	Flags   []string          `json:"server_flags"`
	HostID  string            `json:"host_peer_id"`
	RecvID  string            `json:"receiver_peer_id"`
	MaxRecv int               `json:"client_max_receivers"`
	Turn    []string          `json:"turn_servers,omitempty"`
	Secret  string            `json:"turn_secret,omitempty"`
	SegMax  int               `json:"seg_max"`
}

type c16Harness struct{}

var peerIDPool = []string{"host-1", "a b", "x&y=z", "ünï", "id#frag", "p/q", "100%", "plus+sign", "q?x=1", "colon:id", "semi;colon", "comma,id"}
var turnSpellings = []string{"turn:turn.example.org:3478", "turns:turn.example.org:5349", "turn://turn.example.org:3478", "turns://turn.example.org:5349?servername=alt.example.org", "turn:turn.example.org:3478?transport=tcp", "turn:turn.example.org:3478?transport=udp", "turn.example.org:3478", "turn:10.1.2.3:3478", "turn:[2001:db8::1]:3478?transport=tcp", "turns://[2001:db8::2]:5349?servername=alt.example.org", "turn:[2001:db8::3]:3478"}

type flagChoice struct {
	name string
	vals []string // "" = leave at default
}

var c16Grid = []flagChoice{
	{"--max-sessions", []string{"", "1", "0"}},
	{"--max-receivers-per-sender", []string{"", "1", "0"}},
	{"--max-message-bytes", []string{"", "512", "0"}},
	{"--ws-connects-per-min", []string{"", "6", "0"}},
	{"--ws-connects-burst", []string{"", "2", "0"}},
	{"--ws-msgs-per-sec", []string{"", "1", "0"}},
	{"--ws-msgs-burst", []string{"", "2", "0"}},
	{"--session-creates-per-min", []string{"", "6", "0"}},
	{"--session-creates-burst", []string{"", "1", "0"}},
	{"--max-ws-connections", []string{"", "2", "0"}},
	{"--ws-idle-timeout", []string{"", "1s", "0"}},
	{"--session-timeout", []string{"", "1s", "0"}},
}

func (c16Harness) Gen(r *verifsim.SplitMix, tier string, idx int) any {
	sp := c16Spec{Seed: r.Next(), SegMax: []int{16, 1400, 65536}[r.Intn(3)]}
	sp.Strat = verifsim.Strategy{Kind: []string{"rand", "fifo", "weighted"}[r.Intn(3)], Seed: r.Next(), MaxW: 5}
	for _, fc := range c16Grid {
		v := fc.vals[r.Intn(len(fc.vals))]
		if v != "" {
			sp.Flags = append(sp.Flags, fc.name, v)
		}
	}
	if r.Chance(2, 3) {
		n := 1 + r.Intn(2)
		for i := 0; i < n; i++ {
			sp.Turn = append(sp.Turn, turnSpellings[r.Intn(len(turnSpellings))])
		}
		sp.Secret = []string{"s3cret", "with space", "sym&=?/", "ünïcode"}[r.Intn(4)]
		sp.Flags = append(sp.Flags, "--turn-server", strings.Join(sp.Turn, ","), "--turn-static-auth-secret", sp.Secret)
		if r.Chance(1, 2) {
			sp.Flags = append(sp.Flags, "--turn-cred-ttl", []string{"1m", "0", "2h"}[r.Intn(3)])
		}
	}
	sp.HostID = peerIDPool[r.Intn(len(peerIDPool))]
	sp.RecvID = peerIDPool[r.Intn(len(peerIDPool))]
	if sp.RecvID == sp.HostID {
		sp.RecvID += "-r"
	}
	sp.MaxRecv = []int{0, 1, 4}[r.Intn(3)]
	if flagValue(sp.Flags, "--max-receivers-per-sender") == "1" && sp.MaxRecv > 1 {
		sp.MaxRecv = 1 // asking for more than the server allows is refused by design
	}
	return sp
}

func (c16Harness) Decode(raw json.RawMessage) (any, error) {
	var sp c16Spec
	err := json.Unmarshal(raw, &sp)
	return sp, err
}

func (c16Harness) Shrink(spec any) []any {
	sp := spec.(c16Spec)
	var out []any
	// drop one flag pair at a time (the TURN flags go together)
	for i := 0; i+1 < len(sp.Flags); i += 2 {
		if strings.HasPrefix(sp.Flags[i], "--turn") {
			continue
		}
		c := sp
		c.Flags = append(append([]string(nil), sp.Flags[:i]...), sp.Flags[i+2:]...)
		out = append(out, c)
	}
	if len(sp.Turn) > 0 {
		c := sp
		c.Turn, c.Secret = nil, ""
		var fl []string
		for i := 0; i+1 < len(sp.Flags); i += 2 {
			if !strings.HasPrefix(sp.Flags[i], "--turn") {
				fl = append(fl, sp.Flags[i], sp.Flags[i+1])
			}
		}
		c.Flags = fl
		out = append(out, c)
	}
	if sp.HostID != "host-1" {
		c := sp
		c.HostID = "host-1"
		out = append(out, c)
	}
	if sp.RecvID != "recv-1" {
		c := sp
		c.RecvID = "recv-1"
		out = append(out, c)
	}
	if sp.MaxRecv != 0 {
		c := sp
		c.MaxRecv = 0
		out = append(out, c)
	}
	return out
}

func flagValue(flags []string, name string) string {
	for i := 0; i+1 < len(flags); i += 2 {
		if flags[i] == name {
			return flags[i+1]
		}
	}
	return ""
}

func (c16Harness) Run(spec any) (res verifsim.RunResult) {
	sp := spec.(c16Spec)
	res.Counters = map[string]int64{}
	var viol []*verifsim.Violation
	addV := func(class, sig, detail string) {
		viol = append(viol, &verifsim.Violation{Class: class, Signature: sig, Detail: detail})
	}
	logger := slog.New(slog.NewTextHandler(io.Discard, nil))
	type clientOut struct {
		createErr, dialErr error
		envs               []protocol.Envelope
		readErr            error // ReadLoop ended before the client itself stopped
		sendErr            error
	}
	exchange := sp.HostID != sp.RecvID // with equal ids an addressed message has no unique target
	var hostOut, recvOut clientOut
	var sessionID, joinCode string
	var done atomic.Int32
	var outcome verifsim.Outcome
	var bubbleStart int64
	s, bubblePanic := runWorld(sp.Seed, sp.Strat, sp.SegMax, sp.Flags, false, func(w *world) {
		bubbleStart = time.Now().Unix()
		collect := func(c *wsclient.Conn, out *clientOut, ctx context.Context, onEnv func(protocol.Envelope)) {
			err := c.ReadLoop(ctx, func(env protocol.Envelope) {
				out.envs = append(out.envs, env)
				if onEnv != nil {
					onEnv(env)
				}
			})
			if ctx.Err() == nil {
				out.readErr = fmt.Errorf("connection ended by the server: %v", err)
			}
		}
		say := func(c *wsclient.Conn, out *clientOut, to, text string) {
			env, err := protocol.NewEnvelope(protocol.TypeOffer, protocol.NewMsgID(), map[string]string{"text": text})
			if err == nil {
				env.To = to
				err = c.Send(env)
			}
			if err != nil && out.sendErr == nil {
				out.sendErr = err
			}
		}
		hostReady := make(chan struct{})
		verifsim.Go("H", func() {
			defer done.Add(1)
			defer close(hostReady)
			ctx, cancel := context.WithTimeout(context.Background(), 20*time.Second)
			defer cancel()
			sid, code, _, err := clienthttp.CreateSession(ctx, srvURL, sp.MaxRecv)
			if err != nil {
				hostOut.createErr = err
				return
			}
			sessionID, joinCode = sid, code
			u, err := app.VerifBuildWebSocketURL(srvURL, code, sp.HostID, "sender", sp.MaxRecv)
			if err != nil {
				hostOut.dialErr = err
				return
			}
			c, err := wsclient.Dial(ctx, u, logger)
			if err != nil {
				hostOut.dialErr = err
				return
			}
			rctx, rcancel := context.WithCancel(context.Background())
			hostListed := make(chan struct{}, 1)
			verifsim.Go("H>read", func() {
				collect(c, &hostOut, rctx, func(env protocol.Envelope) {
					if env.Type == protocol.TypePeerList {
						select {
						case hostListed <- struct{}{}:
						default:
						}
					}
					// the host answers the receiver's first message (one message per peer:
					// within every message-rate configuration of the grid)
					if exchange && env.Type == protocol.TypeOffer && env.From == sp.RecvID {
						say(c, &hostOut, sp.RecvID, "pong")
					}
				})
			})
			// the receiver is started once the host has its peer list: a completed WebSocket
			// upgrade does not mean the server has registered the peer yet, and a message to a
			// peer that is not registered is answered with peer_not_found (C10's premise, too)
			select {
			case <-hostListed:
			case <-time.After(300 * time.Millisecond):
			}
			hostReady <- struct{}{}
			time.Sleep(800 * time.Millisecond) // stays below the smallest idle/session timeouts of the grid
			rcancel()
		})
		verifsim.Go("R", func() {
			defer done.Add(1)
			if _, ok := <-hostReady; !ok {
				return
			}
			ctx, cancel := context.WithTimeout(context.Background(), 20*time.Second)
			defer cancel()
			u, err := app.VerifBuildWebSocketURL(srvURL, joinCode, sp.RecvID, "receiver", 0)
			if err != nil {
				recvOut.dialErr = err
				return
			}
			c, err := wsclient.Dial(ctx, u, logger)
			if err != nil {
				recvOut.dialErr = err
				return
			}
			rctx, rcancel := context.WithCancel(context.Background())
			gotList := make(chan struct{}, 1)
			verifsim.Go("R>read", func() {
				collect(c, &recvOut, rctx, func(env protocol.Envelope) {
					if env.Type == protocol.TypePeerList {
						select {
						case gotList <- struct{}{}:
						default:
						}
					}
				})
			})
			if exchange {
				select {
				case <-gotList:
					say(c, &recvOut, sp.HostID, "ping")
				case <-time.After(300 * time.Millisecond):
				}
			}
			time.Sleep(500 * time.Millisecond)
			rcancel()
		})
		outcome = w.run(func() bool { return done.Load() == 2 }, 2*time.Minute)
		w.settle(5 * time.Second)
	})
	cfg := strings.Join(sp.Flags, " ")
	if bubblePanic != "" && !strings.Contains(bubblePanic, "deadlock: main bubble goroutine has exited") {
		addV("panic", "bubble:"+firstLineSrv(bubblePanic), bubblePanic)
	}
	if outcome != verifsim.Finished {
		addV("client-hang", "create-or-connect", fmt.Sprintf("clients did not finish within 2 simulated minutes (flags %s): %v", cfg, s.Waiting()))
	} else {
		switch {
		case hostOut.createErr != nil:
			addV("create-session-failed", c16Cause(sp, hostOut.createErr), fmt.Sprintf("CreateSession against flags [%s]: %v", cfg, hostOut.createErr))
		case hostOut.dialErr != nil:
			addV("host-connect-failed", c16Cause(sp, hostOut.dialErr), fmt.Sprintf("host %q could not connect with the URL the client builds (flags [%s]): %v", sp.HostID, cfg, hostOut.dialErr))
		case recvOut.dialErr != nil:
			addV("receiver-connect-failed", c16Cause(sp, recvOut.dialErr), fmt.Sprintf("receiver %q could not connect (flags [%s]): %v", sp.RecvID, cfg, recvOut.dialErr))
		default:
			res.Counters["both_roles_connected"]++
			check := func(role, peerID string, envs []protocol.Envelope) {
				var list, turn *protocol.Envelope
				for i := range envs {
					switch envs[i].Type {
					case protocol.TypePeerList:
						list = &envs[i]
					case protocol.TypeTurnCredentials:
						turn = &envs[i]
					}
				}
				if list == nil {
					addV("no-peer-list", role, fmt.Sprintf("%s %q connected but received no peer_list (flags [%s])", role, peerID, cfg))
				} else if list.SessionID != sessionID {
					addV("wrong-session", role, fmt.Sprintf("%s got peer_list of session %s, created %s", role, list.SessionID, sessionID))
				}
				if len(sp.Turn) == 0 {
					return
				}
				if turn == nil {
					addV("no-turn-credentials", role, fmt.Sprintf("TURN is configured (%v) but %s %q received no turn_credentials", sp.Turn, role, peerID))
					return
				}
				var creds protocol.TurnCredentials
				if err := turn.DecodePayload(&creds); err != nil {
					addV("turn-credentials-undecodable", role, err.Error())
					return
				}
				if len(creds.Servers) != len(sp.Turn) {
					addV("turn-credentials-mismatch", "server-count", fmt.Sprintf("%d servers minted for %d configured", len(creds.Servers), len(sp.Turn)))
					return
				}
				res.Counters["turn_urls_parsed"] += int64(len(creds.Servers))
				for i, raw := range creds.Servers {
					got, err := ice.VerifParseTurnServer(raw)
					if err != nil {
						addV("turn-credentials-unparsable", turnKind(sp.Turn[i]), fmt.Sprintf("client cannot parse the URL the server minted from %q for peer %q: %q: %v", sp.Turn[i], peerID, raw, err))
						continue
					}
					// what the server intended: username = "<unix expiry>:<peer id>", password = base64(HMAC-SHA1(secret, username))
					colon := strings.IndexByte(got.Username, ':')
					if colon < 0 {
						addV("turn-credentials-mismatch", "username-shape", fmt.Sprintf("parsed username %q", got.Username))
						continue
					}
					exp, err := strconv.ParseInt(got.Username[:colon], 10, 64)
					if err != nil || got.Username[colon+1:] != peerID {
						addV("turn-credentials-mismatch", "username", fmt.Sprintf("parsed username %q does not name peer %q (minted URL %q)", got.Username, peerID, raw))
						continue
					}
					// the credential must be valid for the configured lifetime (--turn-cred-ttl, 1 h when
					// unset or 0), counted from when it was minted - whatever the other flags say
					ttl := time.Hour
					if v := flagValue(sp.Flags, "--turn-cred-ttl"); v != "" && v != "0" {
						if d, err := time.ParseDuration(v); err == nil && d > 0 {
							ttl = d
						}
					}
					if life := exp - bubbleStart; life < int64(ttl.Seconds())-5 || life > int64(ttl.Seconds())+300 {
						addV("turn-credentials-mismatch", "expiry", fmt.Sprintf("credential minted within %v of the start expires %d s after it; --turn-cred-ttl means %v (flags [%s])", s0Since(), life, ttl, cfg))
					}
					mac := hmac.New(sha1.New, []byte(sp.Secret))
					mac.Write([]byte(got.Username))
					if want := base64.StdEncoding.EncodeToString(mac.Sum(nil)); got.Password != want {
						addV("turn-credentials-mismatch", "password", fmt.Sprintf("parsed secret %q, the server's secret gives %q for user %q (minted URL %q)", got.Password, want, got.Username, raw))
					}
					wantAddr, wantTLS, wantTCP, wantSNI := turnEndpoint(sp.Turn[i])
					if got.Addr != wantAddr || got.UseTLS != wantTLS || got.UseTCP != wantTCP || got.ServerName != wantSNI {
						addV("turn-credentials-mismatch", "endpoint", fmt.Sprintf("configured %q means %s tls=%v tcp=%v servername=%q; the client parsed %s tls=%v tcp=%v servername=%q from the minted %q", sp.Turn[i], wantAddr, wantTLS, wantTCP, wantSNI, got.Addr, got.UseTLS, got.UseTCP, got.ServerName, raw))
					}
				}
			}
			check("host", sp.HostID, hostOut.envs)
			check("receiver", sp.RecvID, recvOut.envs)
			// the connections must also be usable: one message each way, and nobody is
			// dropped while the clients are still there (well inside every timeout of the grid)
			if exchange {
				res.Counters["message_exchange_checked"]++
				has := func(envs []protocol.Envelope, from string) bool {
					for _, e := range envs {
						if e.Type == protocol.TypeOffer && e.From == from {
							return true
						}
					}
					return false
				}
				switch {
				case hostOut.sendErr != nil || recvOut.sendErr != nil:
					addV("message-exchange-failed", "send", fmt.Sprintf("send failed after connecting (flags [%s]): host=%v receiver=%v", cfg, hostOut.sendErr, recvOut.sendErr))
				case !has(hostOut.envs, sp.RecvID):
					addV("message-exchange-failed", "receiver-to-host", fmt.Sprintf("the receiver's first message never reached the host (flags [%s]); host read: %v, receiver read: %v", cfg, hostOut.readErr, recvOut.readErr))
				case !has(recvOut.envs, sp.HostID):
					addV("message-exchange-failed", "host-to-receiver", fmt.Sprintf("the host's answer never reached the receiver (flags [%s]); host read: %v, receiver read: %v", cfg, hostOut.readErr, recvOut.readErr))
				}
				if hostOut.readErr != nil || recvOut.readErr != nil {
					who := "receiver"
					if hostOut.readErr != nil {
						who = "host"
					}
					addV("dropped-while-connected", who, fmt.Sprintf("the server ended a connection although the client was still there, less than 1 s after connecting (flags [%s]): host=%v receiver=%v", cfg, hostOut.readErr, recvOut.readErr))
				}
			}
		}
	}
	if s != nil {
		res.LogHash, res.Steps, res.SimTime, res.QStates = s.LogHash, s.Steps, s.Since(), len(s.QStates)
		res.Nontrivial = s.Steps > 20
		for _, v := range viol {
			v.LogHash, v.Steps, v.Trace = verifsim.HashStr(s.LogHash), s.Steps, s.Log
		}
	}
	res.Violations = viol
	res.Sample = map[string]any{"spec": sp, "host_envelopes": len(hostOut.envs), "receiver_envelopes": len(recvOut.envs), "create_error": fmt.Sprint(hostOut.createErr)}
	return
}

func s0Since() string { return "the first seconds" }

// c16Cause names the configuration element a failure is attributed to.
func c16Cause(sp c16Spec, err error) string {
	msg := err.Error()
	switch {
	case strings.Contains(msg, "expires_at"):
		return "expires_at:session-timeout=" + flagValue(sp.Flags, "--session-timeout")
	case strings.Contains(msg, "429") || strings.Contains(msg, "limit"):
		return "limit"
	case strings.Contains(msg, "404"):
		return "404"
	}
	if len(msg) > 60 {
		msg = msg[:60]
	}
	return msg
}

func turnKind(raw string) string {
	switch {
	case strings.HasPrefix(raw, "turns://"):
		return "turns://"
	case strings.HasPrefix(raw, "turns:"):
		return "turns:"
	case strings.HasPrefix(raw, "turn://"):
		return "turn://"
	case strings.HasPrefix(raw, "turn:"):
		return "turn:"
	}
	return "bare"
}

// turnEndpoint: the documented meaning of a configured TURN URL: host:port,
// TLS for turns, TCP for turns or ?transport=tcp, TLS server name = the
// ?servername= option or else the host.
func turnEndpoint(raw string) (addr string, useTLS, useTCP bool, serverName string) {
	useTLS = strings.HasPrefix(raw, "turns")
	r := raw
	for _, p := range []string{"turns://", "turns:", "turn://", "turn:"} {
		if strings.HasPrefix(r, p) {
			r = strings.TrimPrefix(r, p)
			break
		}
	}
	query := ""
	if i := strings.IndexByte(r, '?'); i >= 0 {
		r, query = r[:i], r[i+1:]
	}
	addr = r
	useTCP = useTLS
	if i := strings.LastIndexByte(r, ':'); i >= 0 {
		serverName = strings.TrimSuffix(strings.TrimPrefix(r[:i], "["), "]") // an IPv6 literal is written in brackets only next to a port
	}
	for _, kv := range strings.Split(query, "&") {
		switch {
		case kv == "transport=tcp":
			useTCP = true
		case strings.HasPrefix(kv, "servername="):
			serverName = strings.TrimPrefix(kv, "servername=")
		}
	}
	return
}

func firstLineSrv(s string) string {
	if i := strings.IndexByte(s, '\n'); i >= 0 {
		return s[:i]
	}
	return s
}
