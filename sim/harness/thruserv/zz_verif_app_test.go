package main

// Tier T4, "the whole application": the real `thru host` and `thru join` flows
// (app.RunSnapshotSender / app.RunSnapshotReceiver: session creation, signaling
// over the real wsclient, candidate exchange, ice.ProbeAndDial, the receiver's
// accept/dial race, transport authentication, extra connections, the transfer
// engines, os.Exit) against the real thruserv main(), in one bubble: signaling
// over SimTCP, QUIC (real quic-go, real TLS) over SimUDP with multi-homed hosts,
// files in a per-run scratch directory. An attacker node "M" with raw quic-go
// and the real engines (but no join code) plays rogue listener or rogue dialer,
// on the primary or on an extra connection.
//
// Parts served from here:
//   C08APP - no manifest or file byte crosses a connection that has not passed
//            transport authentication (sender and receiver side, primary and
//            extra connections); honest pairs get through.
//   C09APP - several candidate addresses per host, both real racing sides
//            (ProbeAndDial against the real acceptOnce + dial-back): the transfer
//            starts and completes on one common connection.
//   C03APP - healthy whole-application runs complete with an identical tree.

import (
	"bytes"
	"context"
	"crypto/hmac"
	"crypto/sha256"
	"encoding/json"
	"fmt"
	"io"
	"log/slog"
	"net"
	"net/http"
	"os"
	"path/filepath"
	"sort"
	"strings"
	"sync"
	"sync/atomic"
	"time"

	"github.com/quic-go/quic-go"
	"github.com/sheerbytes/sheerbytes/internal/app"
	"github.com/sheerbytes/sheerbytes/internal/quictransport"
	"github.com/sheerbytes/sheerbytes/internal/transfer"
	"github.com/sheerbytes/sheerbytes/internal/transferquic"
	"github.com/sheerbytes/sheerbytes/internal/verifsim"
	"github.com/sheerbytes/sheerbytes/internal/wsclient"
	"github.com/sheerbytes/sheerbytes/pkg/manifest"
)

type appFile struct {
	P string `json:"p"`
	N int    `json:"n"`
}

type appSpec struct {
	Prop        string            `json:"prop"`
	Seed        uint64            `json:"seed"`
	ContentSeed uint64            `json:"content_seed"`
	Strat       verifsim.Strategy `json:"strategy"`
	Scenario    string            `json:"scenario"` // honest | multipath | rogue_listener | rogue_dialer | rogue_listener_extra | rogue_dialer_extra
	Attack      string            `json:"attack,omitempty"` // engine | garbage | reflect | wrong_code | silent
	Files       []appFile         `json:"files"`
	Chunk       int               `json:"chunk"`
	Streams     int               `json:"streams"`
	ConnsS      int               `json:"sender_connections"`
	ConnsR      int               `json:"receiver_connections"`
	RLat        []int             `json:"receiver_address_latency_ms"` // one per receiver address (one-way, both directions)
	SLat        []int             `json:"sender_address_latency_ms"`
	RLatBack    []int             `json:"receiver_address_return_latency_ms,omitempty"` // 0: same as towards it
	RDead       []bool            `json:"receiver_address_unreachable,omitempty"` // addresses the receiver offers but the sender cannot reach (another network)
	// Sel (part C01APP): what is named on the host's command line, relative to the directory
	// the files of this run live in - directories and single files, with equal base names
	Sel         []string          `json:"host_command_line,omitempty"`
	RMaxStreams int               `json:"receiver_quic_max_incoming_streams,omitempty"` // thru join --quic-max-incoming-streams (0 = default 100)
	MLat        int               `json:"attacker_latency_ms"`
	MDelayMs    int               `json:"attacker_delay_ms"`
}

type appHarness struct{ prop string }

func (h appHarness) Gen(r *verifsim.SplitMix, tier string, idx int) any {
	sp := appSpec{Prop: h.prop, Seed: r.Next(), ContentSeed: r.Next()}
	sp.Chunk = []int{256, 1024, 4096}[r.Intn(3)]
	sp.Streams = 1 + r.Intn(4)
	for i, n := 0, 1+r.Intn(4); i < n; i++ {
		name := fmt.Sprintf("f%d.bin", i)
		if r.Chance(1, 3) {
			name = fmt.Sprintf("d%d/%s", r.Intn(2), name)
		}
		sp.Files = append(sp.Files, appFile{P: name, N: []int{0, 1, sp.Chunk - 1, sp.Chunk, sp.Chunk + 1, 3*sp.Chunk + 7, 9 * sp.Chunk}[r.Intn(7)]})
	}
	lat := func() int { return []int{1, 5, 20, 60}[r.Intn(4)] }
	sp.RLat, sp.SLat = []int{lat()}, []int{lat()}
	sp.ConnsS, sp.ConnsR = 1, 1
	sp.Strat = verifsim.Strategy{Kind: []string{"fifo", "rand", "weighted"}[r.Intn(3)], Seed: r.Next(), MaxW: 5, Horizon: 400}
	switch h.prop {
	case "C08APP":
		sp.Scenario = []string{"honest", "rogue_listener", "rogue_listener", "rogue_dialer", "rogue_dialer", "rogue_listener_extra", "rogue_dialer_extra"}[r.Intn(7)]
		sp.Attack = []string{"engine", "engine_after_auth", "engine_after_auth", "garbage", "silent", "wrong_code"}[r.Intn(6)]
		if sp.Scenario == "rogue_listener" && r.Chance(1, 5) {
			sp.Attack = "reflect"
		}
		if strings.HasSuffix(sp.Scenario, "_extra") || (sp.Scenario == "honest" && r.Chance(1, 2)) {
			sp.ConnsS, sp.ConnsR = 2+r.Intn(3), 2+r.Intn(3)
		}
		if strings.HasSuffix(sp.Scenario, "_extra") && r.Chance(1, 2) {
			// the proof comes 0.3-4 s late, or never: the other extra connections are done first
			sp.Attack = []string{"late_garbage", "late_wrong_code", "silent"}[r.Intn(3)]
		}
		sp.MLat = []int{1, 5, 20}[r.Intn(3)]
		sp.MDelayMs = []int{0, 0, 10, 100}[r.Intn(4)]
		if f := strings.Split(os.Getenv("VERIF_APP_FORCE"), ":"); len(f) == 2 { // development
			sp.Scenario, sp.Attack = f[0], f[1]
			if strings.HasSuffix(sp.Scenario, "_extra") {
				sp.ConnsS, sp.ConnsR = 2+r.Intn(2), 2+r.Intn(3)
			}
		}
		if strings.HasPrefix(sp.Attack, "late_") {
			sp.MDelayMs = []int{300, 1000, 2500, 4000}[r.Intn(4)]
		}
		if sp.Scenario == "rogue_dialer_extra" {
			sp.MLat = 1
			if !strings.HasPrefix(sp.Attack, "late_") {
				sp.MDelayMs = 0
			}
			if sp.RLat[0] < 5 {
				sp.RLat[0] = 20
			}
		}
	case "C09APP":
		sp.Scenario = "multipath"
		// several addresses per host, each path with its own latency: equal ones (two
		// addresses of one machine), different ones, and paths that are faster one way than
		// the other - so that the two ends see the handshakes complete in different orders
		draw := func(n int) []int {
			pool := []int{1, 5, 5, 9, 20, 20, 40, 60, 80}
			var out []int
			for len(out) < n {
				out = append(out, pool[r.Intn(len(pool))])
			}
			return out
		}
		sp.RLat = draw(2 + r.Intn(2))
		sp.SLat = draw(1 + r.Intn(2))
		if r.Chance(1, 3) {
			sp.RLat[1] = sp.RLat[0]
		}
		if r.Chance(1, 3) {
			sp.RLatBack = make([]int, len(sp.RLat))
			for i := range sp.RLatBack {
				if r.Chance(1, 2) {
					sp.RLatBack[i] = []int{1, 5, 9, 20, 40}[r.Intn(5)]
				}
			}
		}
		// some of the addresses a host offers are not reachable from the other side (a LAN
		// address offered to a peer elsewhere); at least one is
		sp.RDead = make([]bool, len(sp.RLat))
		if r.Chance(1, 2) {
			live := r.Intn(len(sp.RLat))
			for i := range sp.RDead {
				sp.RDead[i] = i != live && r.Chance(2, 3)
			}
		}
		if r.Chance(1, 3) {
			sp.ConnsS, sp.ConnsR = 2, 2+r.Intn(2)
		}
	case "C01APP":
		// several things named on the command line: directories (with nested files) and
		// single files, base names repeating across them
		sp.Scenario = "honest"
		sp.Files = nil
		names := []string{"x.bin", "y.bin", "x.bin", "data", "a b.txt", "1_x.bin", "2_data"}
		size := func() int { return []int{0, 1, sp.Chunk - 1, sp.Chunk, 2*sp.Chunk + 3, 7 * sp.Chunk}[r.Intn(6)] }
		for _, d := range []string{"da", "db", "dc/da", "dd/1_da"} {
			if r.Chance(2, 3) {
				sp.Sel = append(sp.Sel, d)
				for i, n := 0, 1+r.Intn(3); i < n; i++ {
					f := names[r.Intn(len(names))]
					if r.Chance(1, 3) {
						f = "sub/" + f
					}
					dup := false
					for _, e := range sp.Files {
						dup = dup || e.P == d+"/"+f
					}
					if !dup {
						sp.Files = append(sp.Files, appFile{P: d + "/" + f, N: size()})
					}
				}
			}
		}
		for i := 0; i < 3; i++ {
			if r.Chance(1, 2) {
				f := fmt.Sprintf("l%d/%s", i, names[r.Intn(len(names))])
				sp.Sel = append(sp.Sel, f)
				sp.Files = append(sp.Files, appFile{P: f, N: size()})
			}
		}
		if len(sp.Sel) == 0 {
			sp.Sel = []string{"da"}
			sp.Files = []appFile{{P: "da/x.bin", N: size()}}
		}
		if r.Chance(1, 2) {
			sp.ConnsS, sp.ConnsR = 1+r.Intn(3), 1+r.Intn(4)
		}
	default:
		sp.Scenario = "honest"
		if r.Chance(1, 2) {
			sp.ConnsS, sp.ConnsR = 1+r.Intn(3), 1+r.Intn(4)
		}
		if r.Chance(1, 4) {
			sp.RMaxStreams = []int{2, 3, 4, 8}[r.Intn(4)]
		}
	}
	return sp
}

func (appHarness) Decode(raw json.RawMessage) (any, error) {
	var sp appSpec
	err := json.Unmarshal(raw, &sp)
	return sp, err
}

func (appHarness) Shrink(spec any) []any {
	sp := spec.(appSpec)
	var out []any
	for i := range sp.Files {
		if len(sp.Files) > 1 {
			c := sp
			c.Files = append(append([]appFile(nil), sp.Files[:i]...), sp.Files[i+1:]...)
			out = append(out, c)
		}
	}
	if sp.Streams > 1 {
		c := sp
		c.Streams = 1
		out = append(out, c)
	}
	if sp.Strat.Kind != "fifo" {
		c := sp
		c.Strat.Kind = "fifo"
		out = append(out, c)
	}
	return out
}

// ---- tree helpers -------------------------------------------------------

func appContent(seed uint64, path string, n int) []byte {
	b := make([]byte, n)
	r := verifsim.NewSplitMix(verifsim.Mix(seed, path))
	for i := 0; i < n; i += 8 {
		v := r.Next()
		for k := 0; k < 8 && i+k < n; k++ {
			b[i+k] = byte(v >> (8 * k))
		}
	}
	return b
}

func appWriteTree(root string, seed uint64, files []appFile) error {
	stamp := time.Unix(1700000000+int64(seed%100000), 0)
	for _, f := range files {
		p := filepath.Join(root, filepath.FromSlash(f.P))
		if err := os.MkdirAll(filepath.Dir(p), 0o755); err != nil {
			return err
		}
		if err := os.WriteFile(p, appContent(seed, f.P, f.N), 0o644); err != nil {
			return err
		}
		os.Chtimes(p, stamp, stamp)
	}
	filepath.Walk(root, func(p string, info os.FileInfo, err error) error {
		if err == nil && info.IsDir() {
			os.Chtimes(p, stamp, stamp)
		}
		return nil
	})
	return nil
}

// appDigest: relpath -> "size:sha256" of every regular file below root (resume metadata aside).
func appDigest(root string) map[string]string {
	out := map[string]string{}
	filepath.Walk(root, func(p string, info os.FileInfo, err error) error {
		if err != nil {
			return nil
		}
		rel, _ := filepath.Rel(root, p)
		if info.IsDir() {
			if info.Name() == ".thruflux_resumedata" {
				return filepath.SkipDir
			}
			return nil
		}
		b, _ := os.ReadFile(p)
		out[filepath.ToSlash(rel)] = fmt.Sprintf("%d:%x", len(b), sha256.Sum256(b))
		return nil
	})
	return out
}

// ---- the attacker's own implementation of the authentication messages ----

func appAtkMsg(cs interface {
	ExportKeyingMaterial(label string, context []byte, length int) ([]byte, error)
}, code string, role byte, nonce []byte) []byte {
	ekm, _ := cs.ExportKeyingMaterial("thruflux-auth-v1", nil, 32)
	k := hmac.New(sha256.New, []byte(code))
	k.Write(ekm)
	m := hmac.New(sha256.New, k.Sum(nil))
	m.Write([]byte{1, role})
	m.Write(nonce)
	b := append([]byte{1, role}, nonce...)
	return m.Sum(b)
}

type teeConn struct {
	net.Conn
	mu  *sync.Mutex
	buf *bytes.Buffer
}

func (t teeConn) Read(p []byte) (int, error) {
	n, err := t.Conn.Read(p)
	if n > 0 {
		t.mu.Lock()
		t.buf.Write(p[:n])
		t.mu.Unlock()
	}
	return n, err
}

type mConnRec struct {
	openedAt time.Duration // simulated time into the run
	proofAt  time.Duration // when the attacker sent its (worthless) proof; = openedAt when it sends none
	closedAt time.Duration // -1: never closed by the other side
}

type appHost struct {
	name  string
	ips   []net.IP
	socks []*verifsim.UDPSock
	port  int
}

var appRunCounter int

func (h appHarness) Run(spec any) (res verifsim.RunResult) {
	sp := spec.(appSpec)
	res.Counters = map[string]int64{}
	var viol []*verifsim.Violation
	var facts []string
	addV := func(class, sig, detail string) {
		for _, v := range viol {
			if v.Class == class && v.Signature == sig {
				return
			}
		}
		viol = append(viol, &verifsim.Violation{Class: class, Signature: sig, Detail: detail})
	}
	appRunCounter++
	base := filepath.Join(os.Getenv("VERIF_SCRATCH"), fmt.Sprintf("app%06d", appRunCounter))
	if os.Getenv("VERIF_SCRATCH") == "" {
		base = filepath.Join(os.TempDir(), fmt.Sprintf("verif-app%06d", appRunCounter))
	}
	os.RemoveAll(base)
	defer os.RemoveAll(base)
	src, out, evil, mout := filepath.Join(base, "s", "tree"), filepath.Join(base, "r", "out"), filepath.Join(base, "m", "evil"), filepath.Join(base, "m", "got")
	for _, d := range []string{src, out, evil, mout} {
		os.MkdirAll(d, 0o755)
	}
	if appWriteTree(src, sp.ContentSeed, sp.Files) != nil || appWriteTree(evil, sp.ContentSeed^0xE711, []appFile{{P: "evil.bin", N: 3000}, {P: "x/evil2.bin", N: 10}}) != nil {
		res.Skipped = true
		return
	}
	logger := slog.New(slog.NewTextHandler(io.Discard, nil))
	flags := []string{"--ws-connects-per-min", "0", "--session-creates-per-min", "0"}
	hostPaths := []string{src}
	if len(sp.Sel) > 0 {
		hostPaths = nil
		for _, e := range sp.Sel {
			hostPaths = append(hostPaths, filepath.Join(src, filepath.FromSlash(e)))
		}
	}

	var mu sync.Mutex
	var sErr, rErr error
	var sRet, rRet bool
	var joinCode string
	var mLeakBytes int64      // payload the attacker received beyond one authentication message per connection
	var mConns, mRejected int // connections the attacker got / that the honest side closed on it
	var mEngineErr string
	var mEngineRan bool
	var mRecs []*mConnRec
	selectionRefused := false
	type sLink struct {
		o *verifsim.UDPSock
		p *verifsim.UDPPath
	}
	var sToR []sLink // every path from a socket of the sender to an address of the receiver
	var sSocks []*verifsim.UDPSock
	var rExitAt, endAt time.Duration
	attacked := strings.HasPrefix(sp.Scenario, "rogue")
	var outcome verifsim.Outcome
	var rExit int
	var rExited bool
	var simElapsed time.Duration

	verifsim.RecoverPanics, verifsim.ExitedStayDead = true, true
	defer func() { verifsim.RecoverPanics, verifsim.ExitedStayDead = false, false }()
	s, bubblePanic := runWorld(sp.Seed, sp.Strat, 65536, flags, false, func(w *world) {
		start := time.Now()
		stopPool := transfer.VerifResetReadPool(2)
		defer stopPool()
		unet := verifsim.NewUDPNet(sp.Seed)
		mkIPs := func(net3 byte, n int) []net.IP {
			var ips []net.IP
			for i := 0; i < n; i++ {
				ips = append(ips, net.IPv4(10, net3, 0, byte(i+1)))
			}
			return ips
		}
		hosts := map[string]*appHost{
			"S": {name: "S", ips: mkIPs(1, len(sp.SLat)), port: 41000},
			"R": {name: "R", ips: mkIPs(2, len(sp.RLat)), port: 42000},
			"M": {name: "M", ips: mkIPs(3, 1), port: 43000},
		}
		latOf := func(h *appHost, ip net.IP) time.Duration {
			ms := 1
			for i, x := range h.ips {
				if x.Equal(ip) {
					switch h.name {
					case "S":
						ms = sp.SLat[i]
					case "R":
						ms = sp.RLat[i]
					case "M":
						ms = sp.MLat
					}
				}
			}
			if h.name == "M" && sp.MLat > 0 {
				ms = sp.MLat
			}
			return time.Duration(ms) * time.Millisecond
		}
		var netMu sync.Mutex
		var mSock *verifsim.UDPSock
		sExtra := 0 // sockets the sender opened after its first one (extra connections)
		// connect wires a new socket x of host hx with every socket of the other hosts, in
		// both directions; where the scenario says so, what the sender believes to be one of
		// the receiver's addresses is answered by the attacker.
		diverted := map[*verifsim.UDPSock]bool{} // sender sockets whose packets for the receiver's addresses reach the attacker
		link := func(ho *appHost, o *verifsim.UDPSock, ht *appHost, t *verifsim.UDPSock) {
			tport := t.LocalAddr().(*net.UDPAddr).Port
			for ipIdx, ip := range ht.ips {
				l := latOf(ht, ip)
				if ho.name == "M" {
					l = time.Duration(sp.MLat) * time.Millisecond
				}
				target := t
				if ho.name == "S" && ht.name == "R" && diverted[o] && mSock != nil {
					target, l = mSock, time.Duration(sp.MLat)*time.Millisecond
				}
				pth := &verifsim.UDPPath{Alias: &net.UDPAddr{IP: ip, Port: tport}, Up: l, Down: l}
				if ho.name == "S" && ht.name == "R" && ipIdx < len(sp.RLatBack) && sp.RLatBack[ipIdx] > 0 {
					pth.Down = time.Duration(sp.RLatBack[ipIdx]) * time.Millisecond
				}
				if ho.name == "S" && ht.name == "R" && ipIdx < len(sp.RDead) && sp.RDead[ipIdx] {
					pth.Blackhole = true
				}
				unet.AddPath(o, target, pth)
				if ho.name == "S" && ht.name == "R" {
					sToR = append(sToR, sLink{o, pth})
				}
			}
		}
		connect := func(hx *appHost, x *verifsim.UDPSock) {
			for _, hy := range []*appHost{hosts["S"], hosts["R"], hosts["M"]} {
				if hy == hx {
					continue
				}
				for _, y := range hy.socks {
					if y.Closed() {
						continue
					}
					link(hx, x, hy, y)
					link(hy, y, hx, x)
				}
			}
		}
		newSock := func(node string) *verifsim.UDPSock {
			netMu.Lock()
			defer netMu.Unlock()
			h := hosts[node]
			if h == nil {
				h = hosts["M"]
			}
			h.port++
			x := unet.NewSock(&net.UDPAddr{IP: h.ips[0], Port: h.port})
			divert := false
			if h.name == "S" {
				// sockets the sender still has open (its start-up probe of the buffer sizes opens
				// and closes one): none = this is the prober's socket, otherwise an extra connection's
				alive := 0
				for _, y := range h.socks {
					if !y.Closed() {
						alive++
					}
				}
				switch sp.Scenario {
				case "rogue_listener":
					divert = alive == 0
				case "rogue_listener_extra":
					divert = alive >= 1 && sExtra == 0
				}
				if alive >= 1 {
					sExtra++
				}
			}
			diverted[x] = divert
			connect(h, x)
			h.socks = append(h.socks, x)
			return x
		}
		verifsim.World = &verifsim.AppWorld{
			ListenUDP: func(node string, laddr *net.UDPAddr) (verifsim.UDPConn, error) { return newSock(node), nil },
			Interfaces: func(node string) []verifsim.Iface {
				h := hosts[node]
				if h == nil {
					return nil
				}
				return []verifsim.Iface{{Name: "eth0", Flags: net.FlagUp, IPs: h.ips}}
			},
			Stdin: func(node string) io.Reader {
				if node == "R" {
					return strings.NewReader("y\ny\n")
				}
				return strings.NewReader("")
			},
		}
		defer func() { verifsim.World = nil }()
		// a process that exits loses its UDP sockets without a word; its signaling
		// connection is closed by its kernel
		wsConns := map[string][]net.Conn{}
		wsclient.VerifSetNetDial(func(ctx context.Context, network, addr string) (net.Conn, error) {
			node := verifsim.Node()
			ip := "10.0.9.9"
			if node == "R" {
				ip = "10.0.9.10"
			}
			c, err := w.tnet.Dial(ctx, ip, addr)
			if err == nil {
				netMu.Lock()
				wsConns[node] = append(wsConns[node], c)
				netMu.Unlock()
			}
			return c, err
		})
		w.s.OnCrash = func(node string) {
			netMu.Lock()
			if h := hosts[node]; h != nil {
				for _, x := range h.socks {
					x.Close()
				}
			}
			cs := append([]net.Conn(nil), wsConns[node]...)
			netMu.Unlock()
			for _, c := range cs {
				if tc, ok := c.(*verifsim.TCPConn); ok {
					tc.CloseNow()
				}
			}
		}
		// the sender's session creation passes through here: that is how the harness
		// learns the join code a user would read off the sender's terminal
		var httpBuf bytes.Buffer
		var httpMu sync.Mutex
		http.DefaultTransport = &http.Transport{DisableKeepAlives: true, DialContext: func(ctx context.Context, network, addr string) (net.Conn, error) {
			c, err := w.tnet.Dial(ctx, "10.0.9.9", addr)
			if err != nil {
				return nil, err
			}
			return teeConn{Conn: c, mu: &httpMu, buf: &httpBuf}, nil
		}}
		ctxS, cancelS := context.WithCancel(context.Background())
		ctxR, cancelR := context.WithCancel(context.Background())
		ctxM, cancelM := context.WithCancel(context.Background())
		defer cancelS()
		defer cancelR()
		defer cancelM()
		var done atomic.Int32
		verifsim.Go("S", func() {
			err := app.RunSnapshotSender(ctxS, logger, app.SnapshotSenderConfig{
				ServerURL: srvURL, Paths: hostPaths, MaxReceivers: 2, ReceiverTTL: 10 * time.Minute,
				ParallelConnections: sp.ConnsS, StunServers: []string{"10.9.9.9:3478"},
				TransferOpts: transfer.Options{ChunkSize: uint32(sp.Chunk), ParallelFiles: sp.Streams},
			})
			mu.Lock()
			sErr, sRet = err, true
			mu.Unlock()
			done.Add(1)
		})
		getCode := func() string {
			httpMu.Lock()
			defer httpMu.Unlock()
			b := httpBuf.String()
			i := strings.Index(b, `"join_code":"`)
			if i < 0 {
				return ""
			}
			rest := b[i+13:]
			if j := strings.IndexByte(rest, '"'); j > 0 {
				return rest[:j]
			}
			return ""
		}
		w.run(func() bool { return getCode() != "" }, 30*time.Second)
		joinCode = getCode()
		if joinCode == "" {
			mu.Lock()
			refused := sRet && sErr != nil && len(sp.Sel) > 0
			mu.Unlock()
			if refused {
				selectionRefused = true // the tool refused this command line (names it cannot tell apart)
				return
			}
			addV("harness-panic", "app:no-join-code", "the sender did not create a session within 30 simulated seconds")
			return
		}
		// the user at the other end reads the code off the host's terminal and types it
		w.run(func() bool { return false }, 2*time.Second)
		// the attacker: one socket, a listener on it, and (rogue dialer) dials from it
		if attacked {
			mSock = newSock("M")
			mtr := &quic.Transport{Conn: mSock}
			serve := func(qc *quic.Conn, asListener bool) {
				rec := &mConnRec{openedAt: time.Since(start), proofAt: time.Since(start), closedAt: -1}
				proof := func() {
					mu.Lock()
					rec.proofAt = time.Since(start)
					mu.Unlock()
				}
				mu.Lock()
				mConns++
				mRecs = append(mRecs, rec)
				mu.Unlock()
				go func() {
					// closed by the honest side? (the attacker itself never closes)
					select {
					case <-qc.Context().Done():
						mu.Lock()
						mRejected++
						rec.closedAt = time.Since(start)
						mu.Unlock()
					case <-ctxM.Done():
					}
				}()
				role := byte(2) // a rogue listener answers as "receiver"
				if !asListener {
					role = 1
				}
				count := func(st interface{ Read([]byte) (int, error) }, free int) {
					buf := make([]byte, 4096)
					for {
						n, err := st.Read(buf)
						if n > 0 {
							k := n
							if free > 0 {
								if k <= free {
									free -= k
									k = 0
								} else {
									k -= free
									free = 0
								}
							}
							mu.Lock()
							mLeakBytes += int64(k)
							mu.Unlock()
						}
						if err != nil {
							return
						}
					}
				}
				switch sp.Attack {
				case "engine", "engine_after_auth":
					// no authentication at all: the real engine straight on the connection; or
					// ("_after_auth") one authentication exchange with a worthless proof first, for
					// an honest side that goes on although the exchange failed
					mu.Lock()
					mEngineRan = true
					mu.Unlock()
					if sp.Attack == "engine_after_auth" {
						b := make([]byte, 50)
						for i := range b {
							b[i] = byte(verifsim.Mix(sp.Seed, fmt.Sprint("e", i)))
						}
						b[0], b[1] = 1, role
						if asListener {
							st, err := qc.AcceptStream(ctxM)
							if err != nil {
								return
							}
							io.ReadFull(st, make([]byte, 50))
							proof()
							st.Write(b)
							st.Close()
						} else {
							st, err := qc.OpenStreamSync(ctxM)
							if err != nil {
								return
							}
							proof()
							st.Write(b)
							st.SetReadDeadline(time.Now().Add(3 * time.Second))
							io.ReadFull(st, make([]byte, 50))
							st.Close()
						}
					}
					var err error
					if asListener {
						tc, derr := transferquic.NewDialer(qc, logger).Dial(ctxM, "peer")
						if derr == nil {
							_, err = transfer.RecvManifestMultiStream(ctxM, tc, mout, transfer.Options{NoRootDir: true, HashAlg: "crc32c"})
						} else {
							err = derr
						}
					} else {
						tc, derr := transferquic.NewDialer(qc, logger).Dial(ctxM, "peer")
						if derr == nil {
							var m manifest.Manifest
							m, err = manifest.Scan(evil)
							if err == nil {
								err = transfer.SendManifestMultiStream(ctxM, tc, evil, m, transfer.Options{ChunkSize: 1024, ParallelFiles: 1, HashAlg: "crc32c"})
							}
						} else {
							err = derr
						}
					}
					mu.Lock()
					mEngineErr = fmt.Sprint(err)
					mu.Unlock()
				default:
					var st *quic.Stream
					var err error
					if asListener {
						st, err = qc.AcceptStream(ctxM)
					} else {
						st, err = qc.OpenStreamSync(ctxM)
					}
					if err != nil {
						return
					}
					nonce := make([]byte, 16)
					for i := range nonce {
						nonce[i] = byte(verifsim.Mix(sp.Seed, fmt.Sprint("nonce", i)))
					}
					var own []byte
					if asListener {
						own = make([]byte, 50)
						if _, err := io.ReadFull(st, own); err != nil {
							return
						}
					}
					if strings.HasPrefix(sp.Attack, "late_") {
						// the proof comes late: the honest side is busy with other connections meanwhile
						time.Sleep(time.Duration(sp.MDelayMs) * time.Millisecond)
					}
					proof()
					switch strings.TrimPrefix(sp.Attack, "late_") {
					case "garbage":
						b := make([]byte, 50)
						for i := range b {
							b[i] = byte(verifsim.Mix(sp.Seed, fmt.Sprint("g", i)))
						}
						b[0], b[1] = 1, role
						st.Write(b)
					case "reflect":
						st.Write(own)
					case "wrong_code":
						cs := qc.ConnectionState().TLS
						st.Write(appAtkMsg(&cs, "WRONG-"+joinCode, role, nonce))
					case "silent":
					}
					// whatever comes now is payload the honest side should never have sent; further
					// streams carry nothing but payload
					go func() {
						for {
							s2, err := qc.AcceptStream(ctxM)
							if err != nil {
								return
							}
							go count(s2, 0)
						}
					}()
					free := 0
					if !asListener {
						free = 50 // the receiver's answer to an authentication message is not payload
					}
					count(st, free)
				}
			}
			switch sp.Scenario {
			case "rogue_listener", "rogue_listener_extra":
				ln, err := mtr.Listen(quictransport.ServerConfig(), quictransport.DefaultServerQUICConfig())
				if err != nil {
					addV("harness-panic", "app:attacker-listen", err.Error())
					return
				}
				defer ln.Close()
				verifsim.Go("M", func() {
					for {
						qc, err := ln.Accept(ctxM)
						if err != nil {
							return
						}
						verifsim.Go("M", func() { serve(qc, true) })
					}
				})
			case "rogue_dialer", "rogue_dialer_extra":
				verifsim.Go("M", func() {
					// wait for the receiver's socket, then (extra: for the honest primary) and dial
					for i := 0; i < 4000; i++ {
						netMu.Lock()
						n := len(hosts["R"].socks)
						netMu.Unlock()
						if n > 0 {
							break
						}
						time.Sleep(5 * time.Millisecond)
					}
					netMu.Lock()
					if len(hosts["R"].socks) == 0 {
						netMu.Unlock()
						return
					}
					rport := hosts["R"].socks[0].LocalAddr().(*net.UDPAddr).Port
					rip := hosts["R"].ips[0]
					netMu.Unlock()
					if sp.Scenario == "rogue_dialer_extra" {
						// the moment the sender opens the socket of its first extra connection; the
						// attacker is closer to the receiver than the sender is and gets in first
						for i := 0; i < 20000; i++ {
							netMu.Lock()
							alive := 0
							for _, y := range hosts["S"].socks {
								if !y.Closed() {
									alive++
								}
							}
							netMu.Unlock()
							if alive >= 2 {
								break
							}
							time.Sleep(time.Millisecond)
						}
					}
					if !strings.HasPrefix(sp.Attack, "late_") {
						time.Sleep(time.Duration(sp.MDelayMs) * time.Millisecond)
					}
					dctx, dcancel := context.WithTimeout(ctxM, 8*time.Second)
					qc, err := mtr.Dial(dctx, &net.UDPAddr{IP: rip, Port: rport}, quictransport.ClientConfig(), quictransport.DefaultClientQUICConfig())
					dcancel()
					if err != nil {
						return
					}
					serve(qc, false)
				})
			}
		}
		verifsim.Go("R", func() {
			err := app.RunSnapshotReceiver(ctxR, logger, app.SnapshotReceiverConfig{
				ServerURL: srvURL, JoinCode: joinCode, OutDir: out, ParallelConnections: sp.ConnsR, StunServers: []string{"10.9.9.9:3478"},
				QuicMaxIncomingStreams: sp.RMaxStreams,
			})
			mu.Lock()
			rErr, rRet = err, true
			mu.Unlock()
			done.Add(1)
		})
		budget := 4 * time.Minute
		outcome = w.run(func() bool {
			if _, ok := w.s.Exited("R"); ok {
				return true
			}
			mu.Lock()
			defer mu.Unlock()
			return rRet
		}, budget)
		rExit, rExited = w.s.Exited("R")
		rExitAt = time.Since(start)
		if attacked {
			// give the attacker's connections time to be closed (or not) and the sender time
			// to send whatever it is going to send
			w.run(func() bool { return false }, 20*time.Second)
		}
		simElapsed = time.Since(start)
		mu.Lock()
		endAt = simElapsed
		mu.Unlock()
		netMu.Lock()
		sSocks = append(sSocks, hosts["S"].socks...)
		netMu.Unlock()
		cancelM()
		cancelS()
		cancelR()
		w.run(func() bool { return done.Load() >= 1 }, 20*time.Second)
		netMu.Lock()
		for _, h := range hosts {
			for _, x := range h.socks {
				x.Close()
			}
		}
		netMu.Unlock()
	})
	_ = rErr
	if bubblePanic != "" && !strings.Contains(bubblePanic, "deadlock: main bubble goroutine has exited") {
		addV("panic", "app-bubble:"+firstLineSrv(bubblePanic), bubblePanic)
	}
	if s != nil {
		for node, msg := range s.Panics {
			addV("process-panic", node+":"+firstLineSrv(msg), fmt.Sprintf("the %s process panicked: %s", node, msg))
		}
	}
	// ---- judgement ----
	want := map[string]string{}
	for _, f := range sp.Files {
		b := appContent(sp.ContentSeed, f.P, f.N)
		want["tree/"+f.P] = fmt.Sprintf("%d:%x", len(b), sha256.Sum256(b))
	}
	got := appDigest(out)
	diff := func() string {
		var d []string
		if len(sp.Sel) > 0 {
			// Everything named on the command line arrives under its own base name (the tool may
			// put an ordinal in front of a top-level name to tell equal ones apart), paths inside
			// a named directory are kept; nothing else arrives. Contents are unique per source
			// path, so each received file is matched with the one source file it must be.
			used := map[string]bool{}
			matched := map[string]bool{}
			// two passes: names that arrived exactly as expected first, then names with an
			// ordinal in front (equal contents - empty files - would otherwise be paired wrongly)
			for pass := 0; pass < 2; pass++ {
				for _, f := range sp.Files {
					if matched[f.P] {
						continue
					}
					b := appContent(sp.ContentSeed, f.P, f.N)
					hv := fmt.Sprintf("%d:%x", len(b), sha256.Sum256(b))
					tail := ""
					for _, e := range sp.Sel {
						if f.P == e {
							tail = filepath.Base(e)
						} else if strings.HasPrefix(f.P, e+"/") {
							tail = filepath.Base(e) + strings.TrimPrefix(f.P, e)
						}
					}
					var keys []string
					for k := range got {
						keys = append(keys, k)
					}
					sort.Strings(keys)
					for _, k := range keys {
						if used[k] || got[k] != hv {
							continue
						}
						if pass == 0 {
							if k == tail {
								used[k], matched[f.P] = true, true
								break
							}
							continue
						}
						top := k
						if i := strings.IndexByte(k, '/'); i >= 0 {
							top = k[:i]
						}
						if j := strings.IndexByte(top, '_'); j > 0 && strings.Trim(top[:j], "0123456789") == "" && k[j+1:] == tail {
							used[k], matched[f.P] = true, true
							break
						}
					}
					if pass == 1 && !matched[f.P] {
						d = append(d, "missing or wrong "+f.P+" (expected as "+tail+")")
					}
				}
			}
			for k := range got {
				if !used[k] {
					d = append(d, "extra "+k)
				}
			}
			sort.Strings(d)
			return strings.Join(d, ", ")
		}
		for k, v := range want {
			if g, ok := got[k]; !ok {
				d = append(d, "missing "+k)
			} else if g != v {
				d = append(d, "differs "+k)
			}
		}
		for k := range got {
			if _, ok := want[k]; !ok {
				d = append(d, "extra "+k)
			}
		}
		sort.Strings(d)
		return strings.Join(d, ", ")
	}()
	evilInOut := false
	for k := range got {
		if strings.Contains(k, "evil") {
			evilInOut = true
		}
	}
	stolen := appDigest(mout)
	mu.Lock()
	facts = append(facts, "scenario="+sp.Scenario, "attack="+sp.Attack, fmt.Sprintf("r_exited=%v code=%d", rExited, rExit), fmt.Sprintf("tree_ok=%v", diff == ""),
		fmt.Sprintf("m_conns=%d m_rejected=%d leak=%v stolen=%d evil=%v", mConns, mRejected, mLeakBytes > 0, len(stolen), evilInOut))
	res.Counters["app:"+sp.Scenario]++
	if mConns > 0 {
		res.Counters["attacker_connections"] += int64(mConns)
		res.Counters["attacker_connections_closed_by_honest_side"] += int64(mRejected)
	}
	if mEngineRan {
		res.Counters["attacker_engine_runs"]++
	}
	res.Sample = map[string]any{"spec": sp, "receiver_exit": rExit, "receiver_exited": rExited, "sender_returned": sRet, "sender_error": fmt.Sprint(sErr), "tree_diff": diff,
		"attacker": map[string]any{"connections": mConns, "closed_on_it": mRejected, "payload_bytes": mLeakBytes, "engine_error": mEngineErr, "files_received": len(stolen)}, "sim_ms": simElapsed.Milliseconds(), "outcome": outcome.String()}
	mu.Unlock()
	// 1. nothing reaches an unauthenticated peer, nothing from one reaches the disk
	if mLeakBytes > 0 || len(stolen) > 0 {
		addV("payload-to-unauthenticated-peer", sp.Scenario+":"+sp.Attack, fmt.Sprintf("scenario %s, attacker %s: the attacker, which never passed transport authentication, received %d payload bytes and %d files from the honest sender", sp.Scenario, sp.Attack, mLeakBytes, len(stolen)))
	}
	if evilInOut {
		addV("payload-from-unauthenticated-peer", sp.Scenario+":"+sp.Attack, fmt.Sprintf("scenario %s, attacker %s: files sent by the attacker, which never passed transport authentication, are in the receiver's output directory: %s", sp.Scenario, sp.Attack, diff))
	}
	// 1b. an attacker's connection is not kept: the honest side closes it (or, the receiver
	// on its primary connection, exits) at once when the proof is wrong, after its 10 s deadline when none comes. Judged for
	// attackers that stay on the line after their (non-)proof, while the honest process lives.
	if sp.Attack != "engine" {
		// a proof that is wrong is known to be wrong at once; only silence takes the 10 s deadline
		grace := 3 * time.Second
		if sp.Attack == "silent" {
			grace = 12 * time.Second
		}
		for _, rec := range mRecs {
			limit := endAt
			if strings.HasPrefix(sp.Scenario, "rogue_dialer") && rExited && rExitAt < limit {
				limit = rExitAt // the receiver process is gone from here on
			}
			if rec.closedAt < 0 && limit-rec.proofAt > grace || rec.closedAt >= 0 && rec.closedAt-rec.proofAt > grace {
				addV("unauthenticated-connection-kept", sp.Scenario+":"+sp.Attack, fmt.Sprintf("scenario %s, attacker %s: the attacker's connection (opened %v into the run, worthless proof or none at %v) was still held open by the honest side %v after that (closed at: %v; -1 = never)", sp.Scenario, sp.Attack, rec.openedAt.Round(time.Millisecond), rec.proofAt.Round(time.Millisecond), grace, rec.closedAt))
			}
		}
	}
	// 1c. every connection the sender dials goes where the receiver is: a socket of the
	// sender that sent datagrams towards the receiver's addresses got some of them through
	// (the extra connections follow the connection that won the race)
	if sp.Scenario == "multipath" {
		for i, so := range sSocks {
			sent, through := 0, 0
			for _, l := range sToR {
				if l.o == so {
					sent += l.p.Delivered + l.p.Dropped
					through += l.p.Delivered
				}
			}
			if sent > 0 {
				res.Counters["sender_sockets_that_dialled"]++
			}
			if sent > 0 && through == 0 {
				addV("connection-dialled-where-the-receiver-is-not", "app:multipath", fmt.Sprintf("socket %d of the sender sent %d datagrams to addresses of the receiver and none arrived: it dialled only addresses that do not reach the receiver (offered: latencies %v ms, unreachable %v) although the primary connection had found one that does", i, sent, sp.RLat, sp.RDead))
			}
		}
	}
	// 2. success means the sender's tree
	if rExited && rExit == 0 && diff != "" {
		addV("tree-differs", "app:"+sp.Scenario, fmt.Sprintf("the receiver exited with status 0 but its output differs from what the sender hosts: %s", diff))
	}
	if selectionRefused {
		res.Counters["host_refused_the_command_line"]++
		res.Skipped = true
	}
	// 3. healthy peers get through
	healthy := (sp.Scenario == "honest" || sp.Scenario == "multipath") && !selectionRefused
	if healthy {
		switch {
		case outcome != verifsim.Finished || !rExited:
			addV("hang", "app:"+sp.Scenario, fmt.Sprintf("healthy network, same join code on both sides: the receiver had not finished after 4 simulated minutes (%v); waiting: %v", outcome, waitingOf(s)))
		case rExit != 0:
			addV("error", "app:"+sp.Scenario, fmt.Sprintf("healthy network, same join code on both sides: the receiver exited with status %d", rExit))
		}
	}
	res.LogHash = verifsim.Mix(sp.Seed, strings.Join(facts, ";"))
	if s != nil {
		res.Steps, res.SimTime, res.QStates = s.Steps, s.Since(), len(s.QStates)
	}
	res.Nontrivial = res.Steps > 50
	for _, v := range viol {
		v.LogHash, v.Steps, v.Trace = verifsim.HashStr(res.LogHash), res.Steps, facts
	}
	sort.Slice(viol, func(i, j int) bool { return viol[i].Class+viol[i].Signature < viol[j].Class+viol[j].Signature })
	res.Violations = viol
	return
}

func waitingOf(s *verifsim.Sched) []string {
	if s == nil {
		return nil
	}
	// goroutines of processes that are still alive first: they are the ones that wait
	var live, dead []string
	for _, x := range s.Waiting() {
		name := x
		if i := strings.IndexByte(x, '@'); i >= 0 {
			name = x[:i]
		}
		if s.IsDead(verifsim.NodeOf(name)) {
			dead = append(dead, x)
		} else {
			live = append(live, x)
		}
	}
	w := append(live, dead...)
	if len(w) > 16 {
		w = w[:16]
	}
	return w
}
