package main

// Tier T4 with faults. Parts:
//   C04APP - a real `thru join` is killed at a drawn file-system or network
//            operation of its process (crash plan of the scheduler: between
//            receiving, writing, marking and persisting a chunk, inside the
//            metadata flush, ...), possibly twice in a row; then `thru join` is run
//            again with the same code into the same directory (the user answers the
//            resume prompt with yes): it must exit 0 with the host's tree.
//   C02APP - during a real transfer the path between the two hosts goes dead in
//            both directions, or the host process is killed, or the host's user
//            types q: the receiver process must end within a bound, with a non-zero
//            status unless its tree is complete and identical; and the host must
//            have given the slot back: a second receiver that joins afterwards
//            over a healthy path is served (--max-receivers 1).

import (
	"bytes"
	"context"
	"crypto/sha256"
	"encoding/json"
	"fmt"
	"io"
	"log/slog"
	"net"
	"net/http"
	"os"
	"path/filepath"
	"sort"
	"strings"
	"sync"
	"time"

	"github.com/sheerbytes/sheerbytes/internal/app"
	"github.com/sheerbytes/sheerbytes/internal/transfer"
	"github.com/sheerbytes/sheerbytes/internal/verifsim"
	"github.com/sheerbytes/sheerbytes/internal/wsclient"
)

type faultSpec struct {
	Prop        string            `json:"prop"`
	Seed        uint64            `json:"seed"`
	ContentSeed uint64            `json:"content_seed"`
	Strat       verifsim.Strategy `json:"strategy"`
	Files       []appFile         `json:"files"`
	Chunk       int               `json:"chunk"`
	Streams     int               `json:"streams"`
	Conns       int               `json:"connections"`
	LatMs       int               `json:"one_way_ms"`
	PktUs       int               `json:"microseconds_per_datagram"` // link speed: a 1200-byte datagram every so many microseconds
	// C04APP: one crash plan per interrupted run (kind fs | net | any, n-th such operation of the receiver process)
	CrashKind []string `json:"crash_kind,omitempty"`
	CrashN    []int    `json:"crash_n,omitempty"`
	// C04APP, in a quarter of the runs: the first interruption is the HOST being killed (a
	// drawn time after the transfer began, over a slow link); the receiver fails; the user
	// hosts the same tree again (new session, new code) and the receiver joins that one
	HostKilledFirst bool `json:"host_killed_first,omitempty"`
	// C02APP
	Fault string `json:"fault,omitempty"` // blackhole | kill_host | quit_host | kill_receiver
	AtMs  int    `json:"fault_ms_after_transfer_began,omitempty"`
}

type faultHarness struct{ prop string }

func (h faultHarness) Gen(r *verifsim.SplitMix, tier string, idx int) any {
	sp := faultSpec{Prop: h.prop, Seed: r.Next(), ContentSeed: r.Next()}
	sp.Chunk = []int{256, 1024, 4096}[r.Intn(3)]
	sp.Streams = 1 + r.Intn(3)
	sp.Conns = 1 + r.Intn(2)
	sp.LatMs = []int{1, 5, 20}[r.Intn(3)]
	for i, n := 0, 1+r.Intn(3); i < n; i++ {
		sp.Files = append(sp.Files, appFile{P: fmt.Sprintf("f%d.bin", i), N: []int{1, sp.Chunk, 3*sp.Chunk + 7, 9 * sp.Chunk, 20 * sp.Chunk}[r.Intn(5)]})
	}
	sp.Strat = verifsim.Strategy{Kind: []string{"fifo", "rand", "weighted"}[r.Intn(3)], Seed: r.Next(), MaxW: 5, Horizon: 400}
	switch h.prop {
	case "C04APP":
		for i, n := 0, 1+r.Intn(2); i < n; i++ {
			sp.CrashKind = append(sp.CrashKind, []string{"fs", "fs", "fs", "net", "any"}[r.Intn(5)])
			sp.CrashN = append(sp.CrashN, 1+r.Intn(70))
		}
		if r.Chance(1, 4) {
			sp.HostKilledFirst = true
			sp.CrashKind, sp.CrashN = sp.CrashKind[:len(sp.CrashKind)-1], sp.CrashN[:len(sp.CrashN)-1]
			sp.PktUs = []int{2000, 5000}[r.Intn(2)]
			sp.AtMs = r.Intn(30) * 25
			sp.Files = sp.Files[:0]
			for i, n := 0, 1+r.Intn(2); i < n; i++ {
				sp.Files = append(sp.Files, appFile{P: fmt.Sprintf("f%d.bin", i), N: []int{40 * sp.Chunk, 120 * sp.Chunk}[r.Intn(2)]})
			}
		}
	default:
		sp.Fault = []string{"blackhole", "blackhole", "kill_host", "quit_host", "kill_receiver", "kill_receiver"}[r.Intn(6)]
		// a slow link (2-20 ms per datagram) and files of up to 250 chunks: the transfer takes
		// a second or more, and the fault falls into it
		sp.PktUs = []int{2000, 5000, 20000}[r.Intn(3)]
		sp.Files = sp.Files[:0]
		for i, n := 0, 1+r.Intn(3); i < n; i++ {
			sp.Files = append(sp.Files, appFile{P: fmt.Sprintf("f%d.bin", i), N: []int{9 * sp.Chunk, 40 * sp.Chunk, 120 * sp.Chunk, 250 * sp.Chunk}[r.Intn(4)]})
		}
		sp.AtMs = r.Intn(40) * 25
	}
	return sp
}

func (faultHarness) Decode(raw json.RawMessage) (any, error) {
	var sp faultSpec
	err := json.Unmarshal(raw, &sp)
	return sp, err
}

func (faultHarness) Shrink(spec any) []any {
	sp := spec.(faultSpec)
	var out []any
	if len(sp.Files) > 1 {
		c := sp
		c.Files = sp.Files[:1]
		out = append(out, c)
	}
	if len(sp.CrashN) > 1 {
		c := sp
		c.CrashN, c.CrashKind = sp.CrashN[:1], sp.CrashKind[:1]
		out = append(out, c)
	}
	if sp.Conns > 1 {
		c := sp
		c.Conns = 1
		out = append(out, c)
	}
	if sp.Strat.Kind != "fifo" {
		c := sp
		c.Strat.Kind = "fifo"
		out = append(out, c)
	}
	return out
}

func (h faultHarness) Run(spec any) (res verifsim.RunResult) {
	sp := spec.(faultSpec)
	res.Counters = map[string]int64{}
	var viol []*verifsim.Violation
	addV := func(class, sig, detail string) {
		for _, v := range viol {
			if v.Class == class && v.Signature == sig {
				return
			}
		}
		viol = append(viol, &verifsim.Violation{Class: class, Signature: sig, Detail: detail})
	}
	appRunCounter++
	base := filepath.Join(os.Getenv("VERIF_SCRATCH"), fmt.Sprintf("flt%06d", appRunCounter))
	if os.Getenv("VERIF_SCRATCH") == "" {
		base = filepath.Join(os.TempDir(), fmt.Sprintf("verif-flt%06d", appRunCounter))
	}
	os.RemoveAll(base)
	defer os.RemoveAll(base)
	src, out, out2 := filepath.Join(base, "s", "tree"), filepath.Join(base, "r", "out"), filepath.Join(base, "q", "out")
	for _, d := range []string{src, out, out2} {
		os.MkdirAll(d, 0o755)
	}
	if appWriteTree(src, sp.ContentSeed, sp.Files) != nil {
		res.Skipped = true
		return
	}
	logger := slog.New(slog.NewTextHandler(io.Discard, nil))
	flags := []string{"--ws-connects-per-min", "0", "--session-creates-per-min", "0"}
	var mu sync.Mutex
	var facts []string
	type procEnd struct {
		node    string
		crashed bool
		site    string
		exited  bool
		code    int
	}
	var ends []procEnd
	var outcome verifsim.Outcome
	var faultDone bool
	var lateExited bool
	var lateCode int
	var lateWaiting []string
	var firstEndAfterFault time.Duration = -1

	termFrom := termOffset()
	verifsim.RecoverPanics, verifsim.ExitedStayDead = true, true
	defer func() { verifsim.RecoverPanics, verifsim.ExitedStayDead = false, false }()
	s, bubblePanic := runWorld(sp.Seed, sp.Strat, 65536, flags, false, func(w *world) {
		start := time.Now()
		stopPool := transfer.VerifResetReadPool(2)
		defer stopPool()
		w.s.FS = verifsim.NewFS()
		unet := verifsim.NewUDPNet(sp.Seed)
		type host struct {
			name  string
			ip    net.IP
			socks []*verifsim.UDPSock
			port  int
		}
		// every receiver process is a host of its own address; the sender is "S"
		hosts := map[string]*host{"S": {name: "S", ip: net.IPv4(10, 1, 0, 1), port: 41000}}
		var order []string
		hostOf := func(node string) *host {
			if hh, ok := hosts[node]; ok {
				return hh
			}
			hh := &host{name: node, ip: net.IPv4(10, 2, byte(len(hosts)), 1), port: 42000 + 100*len(hosts)}
			hosts[node] = hh
			order = append(order, node)
			return hh
		}
		var netMu sync.Mutex
		var srPaths []*verifsim.UDPPath // paths between the sender and the first receiver (for the blackhole)
		sockAt := map[string]time.Duration{}
		lat := time.Duration(sp.LatMs) * time.Millisecond
		newSock := func(node string) *verifsim.UDPSock {
			netMu.Lock()
			defer netMu.Unlock()
			hx := hostOf(node)
			hx.port++
			x := unet.NewSock(&net.UDPAddr{IP: hx.ip, Port: hx.port})
			names := append([]string{"S"}, order...)
			isHost := func(n string) bool { return strings.HasPrefix(n, "S") }
			for _, n := range names {
				hy := hosts[n]
				if hy == hx || isHost(hx.name) == isHost(hy.name) {
					continue
				}
				for _, y := range hy.socks {
					if y.Closed() {
						continue
					}
					pkt := time.Duration(sp.PktUs) * time.Microsecond
					p1 := &verifsim.UDPPath{Alias: &net.UDPAddr{IP: hy.ip, Port: y.LocalAddr().(*net.UDPAddr).Port}, Up: lat, Down: lat, PktTime: pkt}
					p2 := &verifsim.UDPPath{Alias: &net.UDPAddr{IP: hx.ip, Port: hx.port}, Up: lat, Down: lat, PktTime: pkt}
					unet.AddPath(x, y, p1)
					unet.AddPath(y, x, p2)
					if hx.name == "R1" || hy.name == "R1" {
						srPaths = append(srPaths, p1, p2)
					}
				}
			}
			hx.socks = append(hx.socks, x)
			if _, ok := sockAt[node]; !ok {
				sockAt[node] = time.Since(start)
			}
			return x
		}
		var sStdinW *io.PipeWriter
		verifsim.World = &verifsim.AppWorld{
			ListenUDP: func(node string, laddr *net.UDPAddr) (verifsim.UDPConn, error) { return newSock(node), nil },
			Interfaces: func(node string) []verifsim.Iface {
				netMu.Lock()
				defer netMu.Unlock()
				return []verifsim.Iface{{Name: "eth0", Flags: net.FlagUp, IPs: []net.IP{hostOf(node).ip}}}
			},
			Stdin: func(node string) io.Reader {
				if strings.HasPrefix(node, "R") {
					return strings.NewReader("y\ny\n") // accept; resume what is there
				}
				if node == "S" && sp.Fault == "quit_host" {
					pr, pw := io.Pipe()
					netMu.Lock()
					sStdinW = pw
					netMu.Unlock()
					return pr
				}
				return strings.NewReader("")
			},
		}
		defer func() { verifsim.World = nil }()
		wsConns := map[string][]net.Conn{}
		closeNode := func(node string) {
			netMu.Lock()
			var cs []net.Conn
			if hh := hosts[node]; hh != nil {
				for _, x := range hh.socks {
					x.Close()
				}
			}
			cs = append(cs, wsConns[node]...)
			netMu.Unlock()
			for _, c := range cs {
				if tc, ok := c.(*verifsim.TCPConn); ok {
					tc.CloseNow()
				}
			}
		}
		w.s.OnCrash = closeNode
		var httpBuf bytes.Buffer
		var httpMu sync.Mutex
		http.DefaultTransport = &http.Transport{DisableKeepAlives: true, DialContext: func(ctx context.Context, network, addr string) (net.Conn, error) {
			c, err := w.tnet.Dial(ctx, "10.0.9.9", addr)
			if err != nil {
				return nil, err
			}
			return teeConn{Conn: c, mu: &httpMu, buf: &httpBuf}, nil
		}}
		wsclient.VerifSetNetDial(func(ctx context.Context, network, addr string) (net.Conn, error) {
			node := verifsim.Node()
			ip := "10.0.9.9"
			if strings.HasPrefix(node, "R") {
				ip = "10.0.9.2" + strings.TrimPrefix(node, "R")
			}
			c, err := w.tnet.Dial(ctx, ip, addr)
			if err == nil {
				netMu.Lock()
				wsConns[node] = append(wsConns[node], c)
				netMu.Unlock()
			}
			return c, err
		})
		ctxS, cancelS := context.WithCancel(context.Background())
		defer cancelS()
		hostAs := func(node string) {
			verifsim.Go(node, func() {
				err := app.RunSnapshotSender(ctxS, logger, app.SnapshotSenderConfig{
					ServerURL: srvURL, Paths: []string{src}, MaxReceivers: 1, ReceiverTTL: 10 * time.Minute,
					ParallelConnections: sp.Conns, StunServers: []string{"10.9.9.9:3478"},
					TransferOpts: transfer.Options{ChunkSize: uint32(sp.Chunk), ParallelFiles: sp.Streams},
				})
				if os.Getenv("VERIF_APP_DEBUG") != "" {
					fmt.Fprintf(os.Stderr, "DEBUG host %s returned: %v\n", node, err)
				}
			})
		}
		hostAs("S")
		getCode := func() string {
			httpMu.Lock()
			defer httpMu.Unlock()
			b := httpBuf.String()
			i := strings.LastIndex(b, `"join_code":"`)
			if i < 0 {
				return ""
			}
			rest := b[i+13:]
			if j := strings.IndexByte(rest, '"'); j > 0 {
				return rest[:j]
			}
			return ""
		}
		w.run(func() bool { return getCode() != "" }, 30*time.Second)
		joinCode := getCode()
		if joinCode == "" {
			addV("harness-panic", "app:no-join-code", "the sender did not create a session within 30 simulated seconds")
			return
		}
		w.run(func() bool { return false }, 2*time.Second)
		join := func(node, dir string) context.CancelFunc {
			ctxR, cancelR := context.WithCancel(context.Background())
			verifsim.Go(node, func() {
				err := app.RunSnapshotReceiver(ctxR, logger, app.SnapshotReceiverConfig{
					ServerURL: srvURL, JoinCode: joinCode, OutDir: dir, ParallelConnections: sp.Conns, StunServers: []string{"10.9.9.9:3478"},
				})
				if os.Getenv("VERIF_APP_DEBUG") != "" {
					fmt.Fprintf(os.Stderr, "DEBUG receiver %s returned: %v\n", node, err)
				}
			})
			return cancelR
		}
		gone := func(node string) bool {
			_, ex := w.s.Exited(node)
			return ex || w.s.IsDead(node)
		}
		var cancels []context.CancelFunc
		defer func() {
			for _, c := range cancels {
				c()
			}
		}()
		switch sp.Prop {
		case "C04APP":
			first := 0
			if sp.HostKilledFirst {
				// run 1 ends because the host dies
				first = 1
				cancels = append(cancels, join("R1", out))
				w.run(func() bool {
					ents, _ := os.ReadDir(out)
					return len(ents) > 0 || gone("R1")
				}, time.Minute)
				if !gone("R1") {
					w.run(func() bool { return gone("R1") }, time.Duration(sp.AtMs)*time.Millisecond)
				}
				hostKilled := false
				if !gone("R1") {
					hostKilled = true
					w.s.Kill("S")
					closeNode("S")
				}
				outcome = w.run(func() bool { return gone("R1") }, 4*time.Minute)
				code, ex := w.s.Exited("R1")
				mu.Lock()
				ends = append(ends, procEnd{node: "R1", exited: ex, code: code, crashed: hostKilled, site: "host killed"})
				mu.Unlock()
				if !gone("R1") {
					// a receiver that does not notice that its host is gone is C02's business; here
					// the user gives up on it
					w.s.Kill("R1")
					closeNode("R1")
				}
				if hostKilled {
					// the same tree is hosted again: new process, new session, new code
					hostAs("S2")
					old := joinCode
					w.run(func() bool { c := getCode(); return c != "" && c != old }, 30*time.Second)
					joinCode = getCode()
					w.run(func() bool { return false }, 2*time.Second)
				}
			}
			// interrupted runs, then a last one that nobody disturbs
			for i := first; i <= first+len(sp.CrashN); i++ {
				node := fmt.Sprintf("R%d", i+1)
				if i-first < len(sp.CrashN) {
					w.s.Crash = &verifsim.CrashPlan{Node: node, Kind: sp.CrashKind[i-first], N: sp.CrashN[i-first]}
				} else {
					w.s.Crash = nil
				}
				cancels = append(cancels, join(node, out))
				outcome = w.run(func() bool { return gone(node) }, 4*time.Minute)
				code, ex := w.s.Exited(node)
				pe := procEnd{node: node, exited: ex, code: code}
				if cp := w.s.Crash; cp != nil && cp.Fired {
					pe.crashed, pe.site = true, cp.Site
				}
				mu.Lock()
				ends = append(ends, pe)
				mu.Unlock()
				if !gone(node) {
					break
				}
				// the host notices, the user looks at the screen, types the command again
				w.run(func() bool { return false }, 3*time.Second)
			}
		default:
			cancels = append(cancels, join("R1", out))
			// the fault strikes a drawn time after the transfer has begun (the first entry
			// appears in the output directory: connection made, authenticated, manifest read).
			// A path that is dead before any connection exists is not C02's subject - there the
			// receiver waits without a timeout (DESIGN.md 6.3)
			w.run(func() bool {
				ents, _ := os.ReadDir(out)
				return len(ents) > 0 || gone("R1")
			}, time.Minute)
			if !gone("R1") {
				w.run(func() bool { return gone("R1") }, time.Duration(sp.AtMs)*time.Millisecond)
			}
			faultAt := time.Since(start)
			if !gone("R1") {
				faultDone = true
				switch sp.Fault {
				case "blackhole":
					netMu.Lock()
					for _, p := range srPaths {
						unet.SetBlackhole(p, true)
					}
					netMu.Unlock()
				case "kill_host":
					w.s.Kill("S")
					closeNode("S")
				case "kill_receiver":
					w.s.Kill("R1")
					closeNode("R1")
				case "quit_host":
					netMu.Lock()
					pw := sStdinW
					netMu.Unlock()
					if pw != nil {
						go pw.Write([]byte("q\n"))
					}
				}
			}
			outcome = w.run(func() bool { return gone("R1") }, 4*time.Minute)
			code, ex := w.s.Exited("R1")
			mu.Lock()
			ends = append(ends, procEnd{node: "R1", exited: ex, code: code})
			if gone("R1") {
				firstEndAfterFault = time.Since(start) - faultAt
			}
			mu.Unlock()
			if sp.Fault == "kill_receiver" && faultDone {
				// give the host time to learn it and to make up its mind about that receiver
				w.run(func() bool { return false }, 45*time.Second)
			}
			if sp.Fault == "blackhole" && faultDone {
				// the slot must come back: a second receiver over a healthy path is served
				if !gone("R1") {
					w.s.Kill("R1")
					closeNode("R1")
				}
				w.run(func() bool { return false }, 2*time.Second)
				cancels = append(cancels, join("R2", out2))
				w.run(func() bool { return gone("R2") }, 4*time.Minute)
				lateCode, lateExited = w.s.Exited("R2")
				if !lateExited {
					for _, x := range w.s.Waiting() {
						if strings.HasPrefix(x, "S") {
							lateWaiting = append(lateWaiting, x)
						}
					}
				}
			}
		}
		cancelS()
		w.run(func() bool { return false }, 5*time.Second)
		for n := range hosts {
			closeNode(n)
		}
	})
	if bubblePanic != "" && !strings.Contains(bubblePanic, "deadlock: main bubble goroutine has exited") {
		addV("panic", "app-bubble:"+firstLineSrv(bubblePanic), bubblePanic)
	}
	if s != nil {
		for node, msg := range s.Panics {
			if node == "S" && sp.Fault == "quit_host" && strings.Contains(msg, "send on closed channel") {
				// the host's user typed q while a transfer was about to send a signaling message:
				// hardStop closes the signaling connection's queue, the transfer goroutine sends on
				// it; the process was on its way out anyway (DESIGN.md 6.3)
				res.Counters["host_panicked_while_quitting"]++
				continue
			}
			addV("process-panic", node+":"+firstLineSrv(msg), fmt.Sprintf("the %s process panicked: %s", node, msg))
		}
	}
	want := map[string]string{}
	for _, f := range sp.Files {
		b := appContent(sp.ContentSeed, f.P, f.N)
		want["tree/"+f.P] = fmt.Sprintf("%d:%x", len(b), sha256.Sum256(b))
	}
	diffOf := func(dir string) string {
		got := appDigest(dir)
		var d []string
		for k, v := range want {
			if g, ok := got[k]; !ok {
				d = append(d, "missing "+k)
			} else if g != v {
				d = append(d, "differs "+k)
			}
		}
		for k := range got {
			if _, ok := want[k]; !ok {
				d = append(d, "extra "+k)
			}
		}
		sort.Strings(d)
		return strings.Join(d, ", ")
	}
	mu.Lock()
	defer mu.Unlock()
	diff := diffOf(out)
	switch sp.Prop {
	case "C04APP":
		interrupted := 0
		var hist []string
		for _, e := range ends {
			if e.crashed {
				interrupted++
				hist = append(hist, fmt.Sprintf("%s killed at %s", e.node, e.site))
			} else {
				hist = append(hist, fmt.Sprintf("%s exit=%v/%d", e.node, e.exited, e.code))
			}
		}
		facts = append(facts, hist...)
		res.Counters[fmt.Sprintf("c04app_runs_with_%d_interruptions", interrupted)]++
		last := ends[len(ends)-1]
		switch {
		case last.crashed:
			res.Skipped = true // cannot happen: the last run has no crash plan
		case !last.exited:
			addV("resume-hang", "app", fmt.Sprintf("history [%s]: the last `thru join` into the same directory did not finish within 4 simulated minutes (%v); waiting: %v", strings.Join(hist, "; "), outcome, waitingOf(s)))
		case last.code != 0:
			addV("resume-failed", "app", fmt.Sprintf("history [%s]: the last `thru join` into the same directory exited with status %d", strings.Join(hist, "; "), last.code))
		case diff != "":
			addV("resume-wrong-tree", "app", fmt.Sprintf("history [%s]: the last `thru join` exited 0 but the tree differs: %s", strings.Join(hist, "; "), diff))
		}
		// an interrupted run that nevertheless exited 0 must also have the tree (C01/C02 in passing)
	default:
		e := ends[0]
		facts = append(facts, fmt.Sprintf("fault=%s done=%v r1 exit=%v/%d tree_ok=%v late=%v/%d", sp.Fault, faultDone, e.exited, e.code, diff == "", lateExited, lateCode))
		res.Counters["c02app:"+sp.Fault]++
		if !faultDone {
			res.Counters["c02app_fault_after_the_end"]++
		}
		if e.exited && e.code == 0 && diff != "" {
			addV("receiver-false-success", "app:"+sp.Fault, fmt.Sprintf("fault %s %d ms after the transfer began: the receiver exited 0 but its tree differs: %s", sp.Fault, sp.AtMs, diff))
		}
		// the host's own report about the first receiver: the last "peer=<id> status=<S>" line
		// its terminal got for the first peer it ever mentioned
		hostSays, firstPeer := "", ""
		for _, l := range termSince(termFrom) {
			if i := strings.Index(l, "peer="); i >= 0 {
				f := strings.Fields(l[i:])
				if len(f) >= 2 && strings.HasPrefix(f[1], "status=") {
					id := strings.TrimPrefix(f[0], "peer=")
					if firstPeer == "" {
						firstPeer = id
					}
					if id == firstPeer {
						hostSays = strings.TrimPrefix(f[1], "status=")
					}
				}
			}
		}
		facts = append(facts, "host_says="+hostSays)
		if hostSays != "" {
			res.Counters["host_report_seen"]++
		}
		// the host never reports success for a receiver that did not confirm every file: a
		// receiver that was killed, or cut off, before its tree was complete
		if faultDone && (sp.Fault == "kill_receiver" || sp.Fault == "blackhole") && hostSays == "DONE" && diff != "" {
			addV("host-false-success", "app:"+sp.Fault, fmt.Sprintf("fault %s %d ms after the transfer began: the receiver never held the complete tree (%s), yet the host's terminal ends with status=DONE for it", sp.Fault, sp.AtMs, diff))
		}
		if faultDone && !e.exited && sp.Fault != "kill_receiver" {
			addV("hang-after-fault", "app:"+sp.Fault+":receiver", fmt.Sprintf("fault %s %d ms after the transfer began: the receiver process was still there 4 simulated minutes later (%v); waiting: %v", sp.Fault, sp.AtMs, outcome, waitingOf(s)))
		}
		if faultDone && sp.Fault == "blackhole" {
			switch {
			case !lateExited:
				addV("hang-after-fault", "app:blackhole:host-kept-the-slot", fmt.Sprintf("the path to the first receiver went dead %d ms after its transfer had begun; a second receiver that joined afterwards over a healthy path (--max-receivers 1) was not served within 4 simulated minutes; host goroutines: %v", sp.AtMs, lateWaiting))
			case lateCode != 0:
				addV("error", "app:blackhole:second-receiver", fmt.Sprintf("the second receiver, on a healthy path, exited with status %d", lateCode))
			case diffOf(out2) != "":
				addV("tree-differs", "app:blackhole:second-receiver", "the second receiver exited 0 with a different tree: "+diffOf(out2))
			}
		}
		_ = firstEndAfterFault
	}
	res.Sample = map[string]any{"spec": sp, "ends": fmt.Sprint(ends), "tree_diff": diff, "outcome": outcome.String()}
	res.LogHash = verifsim.Mix(sp.Seed, strings.Join(facts, ";"))
	if s != nil {
		res.Steps, res.SimTime, res.QStates = s.Steps, s.Since(), len(s.QStates)
	}
	res.Nontrivial = res.Steps > 50
	for _, v := range viol {
		v.LogHash, v.Steps, v.Trace = verifsim.HashStr(res.LogHash), res.Steps, facts
	}
	sort.Slice(viol, func(i, j int) bool { return viol[i].Class+viol[i].Signature < viol[j].Class+viol[j].Signature })
	res.Violations = viol
	return
}
