package main

import (
	"testing"

	"github.com/sheerbytes/sheerbytes/internal/verifsim"
)

func TestVerif(t *testing.T) {
	e, ok := verifsim.LoadWorkerEnv()
	if !ok {
		t.Skip("not a verif worker")
	}
	initWorldOnce()
	worldT = t
	var h verifsim.Harness
	switch e.Prop {
	case "C16":
		h = c16Harness{}
	case "C14":
		h = c14Harness{}
	case "C10":
		h = c10Harness{}
	case "C08APP", "C09APP", "C03APP", "C01APP":
		h = appHarness{prop: e.Prop}
	case "C12APP":
		h = multiHarness{}
	case "C03MULTI":
		h = multiHarness{healthy: true}
	case "C04APP", "C02APP":
		h = faultHarness{prop: e.Prop}
	default:
		t.Fatalf("unknown property %s for package cmd/thruserv", e.Prop)
	}
	if rc := verifsim.WorkerMain(h, e); rc != 0 {
		t.Fatalf("worker exit %d", rc)
	}
}
