package main

// T3 world: the real thruserv main() as a node of the simulation, served over
// SimTCP, plus client helpers. Overlaid into cmd/thruserv by the /verif build.

import (
	"context"
	"crypto/rand"
	"flag"
	"fmt"
	"io"
	"net"
	"net/http"
	"os"
	"os/signal"
	"strings"
	"sync"
	"sync/atomic"
	"syscall"
	"testing"
	"testing/synctest"
	"time"

	"github.com/gorilla/websocket"
	"github.com/sheerbytes/sheerbytes/internal/termio"
	"github.com/sheerbytes/sheerbytes/internal/verifsim"
	"github.com/sheerbytes/sheerbytes/internal/wsclient"
	"github.com/sheerbytes/sheerbytes/pkg/protocol"
)

const srvURL = "http://10.0.0.1:8080"

type world struct {
	s         *verifsim.Sched
	tnet      *verifsim.TCPNet
	srv       *http.Server
	listening atomic.Bool
	mu        sync.Mutex
	conns     []*websocket.Conn
}

var worldT *testing.T

// seededReader: deterministic "crypto" randomness for ids, join codes, nonces.
type seededReader struct {
	r       *verifsim.SplitMix
	lowCode bool // 8-byte reads (join codes) draw from a tiny space so that collisions happen
	mu      sync.Mutex
}

func (sr *seededReader) Read(p []byte) (int, error) {
	sr.mu.Lock()
	defer sr.mu.Unlock()
	for i := range p {
		v := byte(sr.r.Next())
		if sr.lowCode && len(p) == 8 {
			v &= 1
		}
		p[i] = v
	}
	return len(p), nil
}

// runWorld runs body inside a bubble with the server started with flags.
// body runs on the bubble's main goroutine; it drives the scheduler through w.run.
func runWorld(seed uint64, strat verifsim.Strategy, segMax int, flags []string, lowCode bool, body func(w *world)) (s *verifsim.Sched, bubblePanic string) {
	w := &world{}
	oldReader := rand.Reader
	defer func() { rand.Reader = oldReader }()
	func() {
		defer func() {
			if r := recover(); r != nil {
				bubblePanic = fmt.Sprint(r)
			}
		}()
		synctest.Test(worldT, func(t *testing.T) {
			w.s = verifsim.New(seed, strat)
			w.s.MaxSteps = 3000000
			s = w.s
			verifsim.S = w.s
			verifsim.Watch(w.s)
			verifsim.SetName("main")
			rand.Reader = &seededReader{r: verifsim.NewSplitMix(seed ^ 0xC0DE), lowCode: lowCode}
			w.tnet = verifsim.NewTCPNet(w.s, segMax)
			w.s.Events = w.tnet.Events
			// per-process state of the server binary
			flag.CommandLine = flag.NewFlagSet("thruserv", flag.ContinueOnError)
			flag.CommandLine.SetOutput(io.Discard)
			http.DefaultServeMux = http.NewServeMux()
			wsIPLimiter = newIPLimiter(0, 1)
			sessionIPLimiter = newIPLimiter(0, 1)
			wsConnLimiter = newConnLimiter(0)
			receiverSlots = sessionSlots{}
			os.Args = append([]string{"thruserv"}, flags...)
			verifsim.HTTPServe = func(addr string, h http.Handler) error {
				if h == nil {
					h = http.DefaultServeMux
				}
				l, err := w.tnet.Listen("10.0.0.1" + addr)
				if err != nil {
					return err
				}
				w.srv = &http.Server{Handler: h}
				w.listening.Store(true)
				return w.srv.Serve(l)
			}
			http.DefaultTransport = &http.Transport{DisableKeepAlives: true, DialContext: func(ctx context.Context, network, addr string) (net.Conn, error) {
				return w.tnet.Dial(ctx, "10.0.9.9", addr)
			}}
			wsclient.VerifSetNetDial(func(ctx context.Context, network, addr string) (net.Conn, error) {
				// the dial runs in the goroutine that called wsclient.Dial: one address per client node
				ip := "10.0.9.9"
				switch verifsim.Node() {
				case "R":
					ip = "10.0.9.10"
				}
				return w.tnet.Dial(ctx, ip, addr)
			})
			verifsim.Go("SRV", main)
			w.run(func() bool { return w.listening.Load() }, 10*time.Second)
			body(w)
			// drain
			w.s.Stop()
			verifsim.Watch(nil)
			if w.srv != nil {
				w.srv.Close()
			}
			w.mu.Lock()
			for _, c := range w.conns {
				c.Close()
			}
			w.mu.Unlock()
			w.tnet.Shutdown()
			if tr, ok := http.DefaultTransport.(*http.Transport); ok {
				tr.CloseIdleConnections()
			}
			time.Sleep(30 * time.Second)
		})
	}()
	verifsim.S = nil
	verifsim.HTTPServe = nil
	return
}

// run drives the scheduler until stop holds (or the simulated budget passes).
func (w *world) run(stop func() bool, budget time.Duration) verifsim.Outcome {
	return w.s.Run(stop, time.Now().Add(budget), 0)
}

// settle: run until nothing is runnable and no network event is pending.
func (w *world) settle(budget time.Duration) verifsim.Outcome {
	return w.s.Run(func() bool { return len(w.s.Blocked()) == 0 && len(w.tnet.Events()) == 0 }, time.Now().Add(budget), 0)
}

func (w *world) httpClient(ip string) *http.Client {
	return &http.Client{Timeout: 5 * time.Second, Transport: &http.Transport{DisableKeepAlives: true, DialContext: func(ctx context.Context, network, addr string) (net.Conn, error) {
		return w.tnet.Dial(ctx, ip, addr)
	}}}
}

func (w *world) wsDial(ip, url string) (*websocket.Conn, int, string, error) {
	d := websocket.Dialer{HandshakeTimeout: 5 * time.Second, NetDialContext: func(ctx context.Context, network, addr string) (net.Conn, error) {
		return w.tnet.Dial(ctx, ip, addr)
	}}
	c, resp, err := d.Dial(url, nil)
	code, body := 0, ""
	if resp != nil {
		code = resp.StatusCode
		if err != nil {
			b, _ := io.ReadAll(resp.Body)
			body = string(b)
		}
		resp.Body.Close()
	}
	if c != nil {
		w.mu.Lock()
		w.conns = append(w.conns, c)
		w.mu.Unlock()
	}
	return c, code, body, err
}

func wsURL(code, peer, role string, extra string) string {
	u := fmt.Sprintf("ws://10.0.0.1:8080/ws?join_code=%s&peer_id=%s&role=%s", code, peer, role)
	if extra != "" {
		u += "&" + extra
	}
	return u
}

type sessionInfo struct {
	ID, Code, ExpiresAt string
	Status              int
}

func (w *world) createSession(ip string, query string) (si sessionInfo, err error) {
	cl := w.httpClient(ip)
	u := srvURL + "/session"
	if query != "" {
		u += "?" + query
	}
	resp, err := cl.Post(u, "", nil)
	if err != nil {
		return si, err
	}
	defer resp.Body.Close()
	si.Status = resp.StatusCode
	b, _ := io.ReadAll(resp.Body)
	s := string(b)
	get := func(k string) string {
		i := strings.Index(s, `"`+k+`":"`)
		if i < 0 {
			return ""
		}
		rest := s[i+len(k)+4:]
		if j := strings.IndexByte(rest, '"'); j >= 0 {
			return rest[:j]
		}
		return ""
	}
	si.ID, si.Code, si.ExpiresAt = get("session_id"), get("join_code"), get("expires_at")
	return si, nil
}

// reader collects every envelope a WebSocket client receives.
type wsLog struct {
	mu     sync.Mutex
	envs   []protocol.Envelope
	steps  []int
	closed bool
	err    error
}

func (w *world) startReader(name string, c *websocket.Conn) *wsLog {
	l := &wsLog{}
	verifsim.Go(name, func() {
		for {
			var env protocol.Envelope
			if err := c.ReadJSON(&env); err != nil {
				l.mu.Lock()
				l.closed, l.err = true, err
				l.mu.Unlock()
				return
			}
			l.mu.Lock()
			l.envs = append(l.envs, env)
			l.steps = append(l.steps, w.s.Steps)
			l.mu.Unlock()
		}
	})
	return l
}

func (l *wsLog) snapshot() ([]protocol.Envelope, bool) {
	l.mu.Lock()
	defer l.mu.Unlock()
	return append([]protocol.Envelope(nil), l.envs...), l.closed
}

// termCapture: what the simulated applications print to their terminals (all nodes of
// all runs of this worker, in order); whole-application harnesses read the part their run
// appended - the host's "peer=... status=..." lines are its report about a receiver.
var termCapture *os.File

func initWorldOnce() {
	if f, err := os.CreateTemp(os.Getenv("VERIF_SCRATCH"), "verif-term-*.log"); err == nil {
		so, se := os.Stdout, os.Stderr
		os.Stdout, os.Stderr = f, f
		termio.Init()
		os.Stdout, os.Stderr = so, se
		termCapture = f
	}
	termio.Init()
	// the runtime's signal goroutine and its channels must come into being outside any
	// bubble (the application calls signal.Notify)
	c := make(chan os.Signal, 1)
	signal.Notify(c, syscall.SIGUSR2)
	signal.Stop(c)
}

// termOffset / termSince: position in the capture, and the lines printed since then.
func termOffset() int64 {
	if termCapture == nil {
		return 0
	}
	st, err := termCapture.Stat()
	if err != nil {
		return 0
	}
	return st.Size()
}

func termSince(off int64) []string {
	if termCapture == nil {
		return nil
	}
	time.Sleep(40 * time.Millisecond) // the terminal writer is a goroutine of its own, outside the bubble
	b, err := os.ReadFile(termCapture.Name())
	if err != nil || int64(len(b)) < off {
		return nil
	}
	return strings.Split(string(b[off:]), "\n")
}
