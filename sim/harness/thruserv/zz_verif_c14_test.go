package main

// C14: join-code lifetime and server limits, against the real server on the
// fake clock (a 24 h lifetime costs microseconds), with concurrent bursts.

import (
	"bufio"
	"context"
	"encoding/json"
	"fmt"
	"io"
	"net/http"
	"sort"
	"strings"
	"sync"
	"sync/atomic"
	"time"

	"github.com/gorilla/websocket"
	"github.com/sheerbytes/sheerbytes/internal/verifsim"
	"github.com/sheerbytes/sheerbytes/pkg/protocol"
)

type c14Spec struct {
	Seed    uint64            `json:"seed"`
	Strat   verifsim.Strategy `json:"strategy"`
	Kind    string            `json:"scenario"` // lifetime-expiry lifetime-host unique burst-sessions burst-receivers burst-conns msgsize msgrate
	Timeout string            `json:"session_timeout,omitempty"`
	Limit   int               `json:"limit"` // the limit under test (0 = disabled)
	N       int               `json:"clients"`
	Rate    int               `json:"rate,omitempty"`
	SegMax  int               `json:"seg_max"`
}

type c14Harness struct{}

var c14Kinds = []string{"lifetime-expiry", "lifetime-expiry", "lifetime-host", "unique", "burst-sessions", "burst-sessions", "burst-receivers", "burst-receivers", "burst-conns", "msgsize", "msgrate", "reconnect-receivers", "iprate", "conns-after-expiry", "failed-upgrade"}

func (c14Harness) Gen(r *verifsim.SplitMix, tier string, idx int) any {
	sp := c14Spec{Seed: r.Next(), SegMax: []int{64, 1400, 65536}[r.Intn(3)]}
	kinds := []string{"rand", "weighted", "pct", "fifo"}
	sp.Strat = verifsim.Strategy{Kind: kinds[r.Intn(len(kinds))], Seed: r.Next(), D: r.Intn(4), Horizon: 400, MaxW: 2 + r.Intn(8)}
	sp.Kind = c14Kinds[r.Intn(len(c14Kinds))]
	switch sp.Kind {
	case "lifetime-expiry":
		sp.Timeout = []string{"1s", "3s", "90s", "1h", "24h"}[r.Intn(5)]
	case "lifetime-host":
		sp.Timeout = []string{"1m", "24h", "0"}[r.Intn(3)]
	case "unique":
		sp.N = 20 + r.Intn(30)
	case "burst-sessions", "burst-receivers", "burst-conns":
		sp.Limit = r.Intn(4) // 0 = disabled: everything must pass
		sp.N = 2 + r.Intn(5)
		if sp.Limit > 0 {
			sp.N = sp.Limit + 1 + r.Intn(3)
		}
	case "iprate":
		sp.Rate = 1 + r.Intn(3)  // per minute
		sp.Limit = 1 + r.Intn(3) // burst
		sp.N = 30 + r.Intn(120)  // seconds of silence between the two bursts
	case "reconnect-receivers":
		sp.Limit = 2 + r.Intn(3)
		sp.N = 2 + r.Intn(3) // newcomers tried after the reconnect
	case "failed-upgrade":
		sp.Limit = 1 + r.Intn(3) // --max-receivers-per-sender
		sp.N = 1 + r.Intn(4)     // requests to /ws that are not WebSocket handshakes
	case "conns-after-expiry":
		sp.Limit = 3 + r.Intn(3) // --max-ws-connections
		sp.Timeout = []string{"2s", "4s"}[r.Intn(2)]
		sp.N = 2 + r.Intn(4) // newcomers tried after the older session has expired
	case "msgsize":
		sp.Limit = []int{256, 1024, 4096, 0}[r.Intn(4)] // 0: no limit
	case "msgrate":
		sp.Rate = 1 + r.Intn(5)
		sp.Limit = 2 + r.Intn(4) // burst
		sp.N = sp.Limit + 2 + r.Intn(4)
	}
	return sp
}

func (c14Harness) Decode(raw json.RawMessage) (any, error) {
	var sp c14Spec
	err := json.Unmarshal(raw, &sp)
	return sp, err
}

func (c14Harness) Shrink(spec any) []any {
	sp := spec.(c14Spec)
	var out []any
	if sp.N > 2 {
		c := sp
		c.N--
		out = append(out, c)
	}
	if sp.SegMax != 65536 {
		c := sp
		c.SegMax = 65536
		out = append(out, c)
	}
	if sp.Strat.Kind != "fifo" {
		c := sp
		c.Strat.Kind = "fifo"
		out = append(out, c)
	}
	return out
}

var c14Quiet = []string{"--ws-connects-per-min", "0", "--session-creates-per-min", "0", "--ws-idle-timeout", "0"}

func (c14Harness) Run(spec any) (res verifsim.RunResult) {
	sp := spec.(c14Spec)
	res.Counters = map[string]int64{}
	var viol []*verifsim.Violation
	var vmu sync.Mutex
	addV := func(class, sig, detail string) {
		vmu.Lock()
		defer vmu.Unlock()
		for _, v := range viol {
			if v.Class == class && v.Signature == sig {
				return
			}
		}
		viol = append(viol, &verifsim.Violation{Class: class, Signature: sig, Detail: detail})
	}
	flags := append([]string(nil), c14Quiet...)
	lowCode := false
	switch sp.Kind {
	case "lifetime-expiry", "lifetime-host":
		flags = append(flags, "--session-timeout", sp.Timeout, "--ws-msgs-per-sec", "0")
	case "unique":
		flags = append(flags, "--max-sessions", "0")
		lowCode = true
	case "burst-sessions":
		flags = append(flags, "--max-sessions", fmt.Sprint(sp.Limit))
	case "burst-receivers", "reconnect-receivers":
		flags = append(flags, "--max-receivers-per-sender", fmt.Sprint(sp.Limit))
	case "burst-conns":
		flags = append(flags, "--max-ws-connections", fmt.Sprint(sp.Limit), "--max-receivers-per-sender", "0")
	case "failed-upgrade":
		flags = append(flags, "--max-receivers-per-sender", fmt.Sprint(sp.Limit), "--max-ws-connections", fmt.Sprint(sp.Limit+1))
	case "conns-after-expiry":
		flags = append(flags, "--max-ws-connections", fmt.Sprint(sp.Limit), "--max-receivers-per-sender", "0", "--session-timeout", sp.Timeout, "--max-sessions", "0")
	case "iprate":
		flags = append(flags, "--session-creates-per-min", fmt.Sprint(sp.Rate), "--session-creates-burst", fmt.Sprint(sp.Limit),
			"--ws-connects-per-min", fmt.Sprint(sp.Rate), "--ws-connects-burst", fmt.Sprint(sp.Limit), "--max-sessions", "0")
	case "msgsize":
		flags = append(flags, "--max-message-bytes", fmt.Sprint(sp.Limit), "--ws-msgs-per-sec", "0")
	case "msgrate":
		flags = append(flags, "--ws-msgs-per-sec", fmt.Sprint(sp.Rate), "--ws-msgs-burst", fmt.Sprint(sp.Limit))
	}
	var outcome verifsim.Outcome
	var done atomic.Int32
	want := int32(1)
	s, bubblePanic := runWorld(sp.Seed, sp.Strat, sp.SegMax, flags, lowCode, func(w *world) {
		try := func(ip, code, peer, role string) (int, *websocket.Conn) {
			c, status, _, _ := w.wsDial(ip, wsURL(code, peer, role, ""))
			return status, c
		}
		switch sp.Kind {
		case "lifetime-expiry":
			verifsim.Go("K", func() {
				defer done.Add(1)
				t0 := time.Now()
				si, err := w.createSession("10.0.3.1", "")
				if err != nil || si.Status != 201 {
					addV("session-create-failed", "lifetime", fmt.Sprintf("status=%d err=%v", si.Status, err))
					return
				}
				ttl, _ := time.ParseDuration(sp.Timeout)
				if want := t0.Add(ttl).UTC().Format(time.RFC3339); si.ExpiresAt != want {
					addV("expires-at-wrong", sp.Timeout, fmt.Sprintf("created at %s with --session-timeout %s: expires_at=%q, expected %q", t0.UTC().Format(time.RFC3339), sp.Timeout, si.ExpiresAt, want))
				}
				if st, c := try("10.0.3.2", si.Code, "early", "receiver"); st != 101 {
					addV("code-refused-while-live", "at-creation", fmt.Sprintf("join code refused right after creation: HTTP %d", st))
				} else {
					c.Close()
				}
				time.Sleep(time.Until(t0.Add(ttl - time.Millisecond)))
				if st, c := try("10.0.3.3", si.Code, "late", "receiver"); st != 101 {
					addV("code-refused-while-live", "1ms-before-expiry", fmt.Sprintf("join code refused 1 ms before the end of its %s lifetime: HTTP %d", sp.Timeout, st))
				} else {
					defer c.Close()
				}
				time.Sleep(time.Until(t0.Add(ttl + time.Millisecond)))
				if st, c := try("10.0.3.4", si.Code, "toolate", "receiver"); st == 101 {
					addV("code-accepted-after-expiry", sp.Timeout, fmt.Sprintf("join code admitted a peer 1 ms after its %s lifetime ended", sp.Timeout))
					c.Close()
				}
				time.Sleep(2 * time.Second)
				if st, c := try("10.0.3.5", si.Code, "muchlater", "receiver"); st == 101 {
					addV("code-accepted-after-expiry", sp.Timeout+"+2s", "join code admitted a peer 2 s after expiry")
					c.Close()
				}
			})
		case "lifetime-host":
			verifsim.Go("K", func() {
				defer done.Add(1)
				si, err := w.createSession("10.0.3.1", "")
				if err != nil || si.Status != 201 {
					addV("session-create-failed", "lifetime", fmt.Sprintf("status=%d err=%v", si.Status, err))
					return
				}
				st, host := try("10.0.3.1", si.Code, "host", "sender")
				if st != 101 {
					addV("code-refused-while-live", "host", fmt.Sprintf("host refused: HTTP %d", st))
					return
				}
				hl := w.startReader("K>hostread", host)
				st, rc := try("10.0.3.2", si.Code, "r1", "receiver")
				if st != 101 {
					addV("code-refused-while-live", "receiver-with-host", fmt.Sprintf("receiver refused while the host is connected: HTTP %d", st))
				} else {
					defer rc.Close()
				}
				time.Sleep(30 * time.Second)
				if st, c := try("10.0.3.3", si.Code, "r2", "receiver"); st != 101 {
					addV("code-refused-while-live", "30s-with-host", fmt.Sprintf("receiver refused 30 s into a live session: HTTP %d", st))
				} else {
					c.Close()
				}
				host.Close()
				time.Sleep(time.Second) // the server notices the close
				_ = hl
				if st, c := try("10.0.3.4", si.Code, "r3", "receiver"); st == 101 {
					addV("code-accepted-after-host-left", sp.Timeout, "join code still admits peers 1 s after the host disconnected")
					c.Close()
				}
			})
		case "unique":
			verifsim.Go("K", func() {
				defer done.Add(1)
				codes := map[string]string{}
				var infos []sessionInfo
				for i := 0; i < sp.N; i++ {
					si, err := w.createSession("10.0.3.1", "")
					if err != nil || si.Status != 201 {
						addV("session-create-failed", "unique", fmt.Sprintf("create %d: status=%d err=%v", i, si.Status, err))
						return
					}
					if other, dup := codes[si.Code]; dup {
						addV("duplicate-join-code", "live-sessions", fmt.Sprintf("sessions %s and %s are both live with join code %s", other, si.ID, si.Code))
					}
					codes[si.Code] = si.ID
					infos = append(infos, si)
				}
				res.Counters["sessions_created_low_entropy"] += int64(len(infos))
				// end every third session (its host connects and leaves): the codes of all
				// the others must keep admitting peers
				ended := map[int]bool{}
				for i, si := range infos {
					if i%3 != 2 {
						continue
					}
					if st, c := try("10.0.3.1", si.Code, "h", "sender"); st == 101 {
						c.Close()
						ended[i] = true
					}
				}
				time.Sleep(time.Second)
				for i, si := range infos {
					if ended[i] {
						if st, c := try("10.0.3.7", si.Code, "late", "receiver"); st == 101 {
							addV("code-accepted-after-host-left", "unique", fmt.Sprintf("code %s still admits peers after its host left", si.Code))
							c.Close()
						}
						continue
					}
					st, c := try("10.0.3.6", si.Code, fmt.Sprintf("probe%d", i), "receiver")
					if st != 101 {
						addV("code-refused-while-live", "after-other-sessions-ended", fmt.Sprintf("join code %s of live session %s is refused (HTTP %d) after unrelated sessions ended", si.Code, si.ID, st))
					} else {
						c.Close()
					}
				}
				// every code leads to its own session
				for i, si := range infos {
					if i%4 != 0 || ended[i] {
						continue
					}
					st, c := try("10.0.3.1", si.Code, "h", "sender")
					if st != 101 {
						addV("code-refused-while-live", "unique", fmt.Sprintf("HTTP %d", st))
						continue
					}
					var env protocol.Envelope
					c.SetReadDeadline(time.Now().Add(5 * time.Second))
					if err := c.ReadJSON(&env); err == nil && env.SessionID != si.ID {
						addV("join-code-resolves-to-other-session", "unique", fmt.Sprintf("code %s of session %s connected to session %s", si.Code, si.ID, env.SessionID))
					}
					c.Close()
				}
			})
		case "burst-sessions":
			var ok atomic.Int32
			want = int32(sp.N)
			for i := 0; i < sp.N; i++ {
				i := i
				verifsim.Go(fmt.Sprintf("C%d", i), func() {
					defer done.Add(1)
					si, err := w.createSession(fmt.Sprintf("10.0.4.%d", i+1), "")
					if err == nil && si.Status == 201 {
						ok.Add(1)
					} else if sp.Limit == 0 {
						addV("unlimited-but-refused", "max-sessions=0", fmt.Sprintf("--max-sessions 0: create refused with HTTP %d err=%v", si.Status, err))
					}
				})
			}
			defer func() {
				res.Counters["burst_accepted"] += int64(ok.Load())
				if sp.Limit > 0 && int(ok.Load()) > sp.Limit {
					addV("limit-exceeded", "max-sessions", fmt.Sprintf("--max-sessions %d but %d of %d concurrent creates succeeded (all sessions live)", sp.Limit, ok.Load(), sp.N))
				}
			}()
		case "burst-receivers", "burst-conns":
			want = int32(sp.N) + 1
			ready := make(chan struct{})
			var code atomic.Value
			var ok atomic.Int32
			var hostOK atomic.Bool
			verifsim.Go("H", func() {
				defer done.Add(1)
				si, err := w.createSession("10.0.3.1", "")
				if err != nil || si.Status != 201 {
					addV("session-create-failed", sp.Kind, fmt.Sprintf("status=%d err=%v", si.Status, err))
					close(ready)
					return
				}
				st, c := try("10.0.3.1", si.Code, "host", "sender")
				if st == 101 {
					hostOK.Store(true)
					w.startReader("H>read", c)
				}
				code.Store(si.Code)
				close(ready)
			})
			for i := 0; i < sp.N; i++ {
				i := i
				verifsim.Go(fmt.Sprintf("C%d", i), func() {
					defer done.Add(1)
					<-ready
					jc, _ := code.Load().(string)
					if jc == "" {
						return
					}
					st, c := try(fmt.Sprintf("10.0.4.%d", i+1), jc, fmt.Sprintf("r%d", i), "receiver")
					if st == 101 {
						ok.Add(1)
						w.startReader(fmt.Sprintf("C%d>read", i), c)
					} else if sp.Limit == 0 {
						addV("unlimited-but-refused", sp.Kind+"=0", fmt.Sprintf("limit 0 (disabled) but a receiver was refused with HTTP %d", st))
					}
				})
			}
			defer func() {
				res.Counters["burst_accepted"] += int64(ok.Load())
				total := int(ok.Load())
				name := "max-receivers-per-sender"
				if sp.Kind == "burst-conns" {
					name = "max-ws-connections"
					if hostOK.Load() {
						total++
					}
				}
				if sp.Limit > 0 && total > sp.Limit {
					addV("limit-exceeded", name, fmt.Sprintf("--%s %d but %d connections were admitted at once (%d concurrent receivers)", name, sp.Limit, total, sp.N))
				}
			}()
		case "iprate":
			// one address uses up its burst of session creations and of connection attempts, is
			// silent for a while, and comes back: over the whole time at most burst + rate x T
			verifsim.Go("K", func() {
				defer done.Add(1)
				t0 := time.Now()
				created, connected := 0, 0
				var code string
				burst := func() {
					for i := 0; i < sp.Limit+2; i++ {
						if si, err := w.createSession("10.0.3.7", ""); err == nil && si.Status == 201 {
							created++
							code = si.Code
						}
					}
					for i := 0; i < sp.Limit+2 && code != ""; i++ {
						if st, c := try("10.0.3.7", code, fmt.Sprintf("p%d-%d", connected, i), "receiver"); st == 101 {
							connected++
							c.Close()
						}
					}
				}
				burst()
				time.Sleep(time.Duration(sp.N) * time.Second)
				burst()
				elapsed := time.Since(t0)
				allowed := sp.Limit + int(float64(sp.Rate)*elapsed.Minutes()) + 1
				res.Counters["iprate_scenarios"]++
				if created > allowed {
					addV("limit-exceeded", "session-creates-per-min", fmt.Sprintf("--session-creates-per-min %d --session-creates-burst %d: %d sessions created from one address within %v (two bursts %d s apart), allowed %d", sp.Rate, sp.Limit, created, elapsed, sp.N, allowed))
				}
				if connected > allowed {
					addV("limit-exceeded", "ws-connects-per-min", fmt.Sprintf("--ws-connects-per-min %d --ws-connects-burst %d: %d connections admitted from one address within %v (two bursts %d s apart), allowed %d", sp.Rate, sp.Limit, connected, elapsed, sp.N, allowed))
				}
				if created < 1 {
					addV("limit-refused-below-limit", "session-creates-burst", fmt.Sprintf("burst %d but no session could be created", sp.Limit))
				}
			})
		case "failed-upgrade":
			// Requests to /ws with a live code that are not WebSocket handshakes (a browser, curl,
			// a wrong protocol version) are refused - and must not use up a receiver's place or a
			// connection's: afterwards as many receivers as the limit allows are admitted.
			verifsim.Go("K", func() {
				defer done.Add(1)
				si, err := w.createSession("10.0.3.1", "")
				if err != nil || si.Status != 201 {
					addV("session-create-failed", sp.Kind, fmt.Sprintf("status=%d err=%v", si.Status, err))
					return
				}
				st, host := try("10.0.3.1", si.Code, "host", "sender")
				if st != 101 {
					addV("code-refused-while-live", sp.Kind, fmt.Sprintf("host refused: HTTP %d", st))
					return
				}
				w.startReader("K>hostread", host)
				for i := 0; i < sp.N; i++ {
					// written and read by this goroutine alone: no transport goroutines
					u := strings.TrimPrefix(wsURL(si.Code, fmt.Sprintf("plain%d", i), "receiver", ""), "ws://")
					hostport, path := u, "/"
					if k := strings.Index(u, "/"); k >= 0 {
						hostport, path = u[:k], u[k:]
					}
					c, err := w.tnet.Dial(context.Background(), fmt.Sprintf("10.0.6.%d", i+1), hostport)
					if err != nil {
						continue
					}
					c.SetDeadline(time.Now().Add(5 * time.Second))
					fmt.Fprintf(c, "GET %s HTTP/1.1\r\nHost: %s\r\nConnection: close\r\n\r\n", path, hostport)
					if resp, err := http.ReadResponse(bufio.NewReader(c), nil); err == nil {
						io.Copy(io.Discard, resp.Body)
						resp.Body.Close()
						if resp.StatusCode == 101 {
							addV("harness-panic", "c14:plain-get-upgraded", "a plain GET was answered 101")
						}
						res.Counters["plain_requests_refused"]++
					}
					c.Close()
				}
				time.Sleep(100 * time.Millisecond)
				admitted := 0
				for i := 0; i < sp.Limit; i++ {
					if st, c := try(fmt.Sprintf("10.0.4.%d", i+1), si.Code, fmt.Sprintf("r%d", i), "receiver"); st == 101 {
						admitted++
						w.startReader(fmt.Sprintf("K>r%d", i), c)
					}
				}
				res.Counters["failed_upgrade_runs"]++
				if admitted < sp.Limit {
					addV("limit-refused-below-limit", "max-receivers-per-sender:after-failed-upgrades", fmt.Sprintf("--max-receivers-per-sender %d: after %d requests to /ws that were not WebSocket handshakes only %d of %d receivers were admitted (no receiver was connected)", sp.Limit, sp.N, admitted, sp.Limit))
				}
				if st, c := try("10.0.4.99", si.Code, "over", "receiver"); st == 101 {
					addV("limit-exceeded", "max-receivers-per-sender", fmt.Sprintf("--max-receivers-per-sender %d: receiver %d admitted", sp.Limit, sp.Limit+1))
					c.Close()
				}
			})
		case "conns-after-expiry":
			// Two sessions of different age under a small --max-ws-connections: the older one
			// expires (the server closes its connections) while the younger still has peers.
			// Afterwards exactly the places the expired session held are free again - not more
			// (a place given back twice), not fewer (a place never given back).
			verifsim.Go("K", func() {
				defer done.Add(1)
				ttl, _ := time.ParseDuration(sp.Timeout)
				t0 := time.Now()
				type rc struct {
					c   *websocket.Conn
					log *wsLog
				}
				var openA, openB []rc
				n := 0
				dial := func(code, id, role string, into *[]rc) bool {
					n++
					st, c := try(fmt.Sprintf("10.0.4.%d", n), code, id, role)
					if st != 101 {
						return false
					}
					*into = append(*into, rc{c, w.startReader(fmt.Sprintf("K>c%d", n), c)})
					return true
				}
				a, err := w.createSession("10.0.3.1", "")
				if err != nil || a.Status != 201 {
					addV("session-create-failed", sp.Kind, fmt.Sprintf("status=%d err=%v", a.Status, err))
					return
				}
				if !dial(a.Code, "hostA", "sender", &openA) || !dial(a.Code, "ra", "receiver", &openA) {
					addV("limit-refused-below-limit", sp.Kind, fmt.Sprintf("--max-ws-connections %d: one of the first two connections refused", sp.Limit))
					return
				}
				time.Sleep(ttl / 2)
				b, err := w.createSession("10.0.3.2", "")
				if err != nil || b.Status != 201 {
					addV("session-create-failed", sp.Kind, fmt.Sprintf("status=%d err=%v", b.Status, err))
					return
				}
				if !dial(b.Code, "hostB", "sender", &openB) {
					addV("limit-refused-below-limit", sp.Kind, "the second session's host refused")
					return
				}
				for i := 0; len(openA)+len(openB) < sp.Limit; i++ {
					if !dial(b.Code, fmt.Sprintf("rb%d", i), "receiver", &openB) {
						addV("limit-refused-below-limit", sp.Kind, fmt.Sprintf("--max-ws-connections %d: connection %d refused", sp.Limit, len(openA)+len(openB)+1))
						return
					}
				}
				var extra []rc
				if dial(b.Code, "over", "receiver", &extra) {
					addV("limit-exceeded", "max-ws-connections", fmt.Sprintf("--max-ws-connections %d: connection %d admitted", sp.Limit, sp.Limit+1))
					return
				}
				// the older session expires; its two connections are closed by the server
				time.Sleep(time.Until(t0.Add(ttl + 300*time.Millisecond)))
				closedA := 0
				for _, o := range openA {
					if _, closed := o.log.snapshot(); closed {
						closedA++
					}
				}
				res.Counters["expired_session_connections_closed"] += int64(closedA)
				admitted := 0
				for i := 0; i < sp.N; i++ {
					if dial(b.Code, fmt.Sprintf("late%d", i), "receiver", &extra) {
						admitted++
					}
					time.Sleep(10 * time.Millisecond)
				}
				time.Sleep(100 * time.Millisecond)
				alive := 0
				for _, o := range append(append([]rc(nil), openB...), extra...) {
					if _, closed := o.log.snapshot(); !closed {
						alive++
					}
				}
				res.Counters["conns_after_expiry_runs"]++
				if alive > sp.Limit {
					addV("limit-exceeded", "max-ws-connections:after-another-session-expired", fmt.Sprintf("--max-ws-connections %d --session-timeout %s: after the older of two sessions expired (%d of its 2 connections closed), %d of %d newcomers were admitted to the younger one: %d connections open at once", sp.Limit, sp.Timeout, closedA, admitted, sp.N, alive))
				}
				if closedA == 2 && admitted < 2 && sp.N >= 2 {
					addV("limit-refused-below-limit", "max-ws-connections:after-another-session-expired", fmt.Sprintf("--max-ws-connections %d: the expired session's 2 connections were closed but only %d newcomers were admitted", sp.Limit, admitted))
				}
			})
		case "reconnect-receivers":
			// receivers up to one below the limit; one of them connects again under the same
			// peer id while its first connection is open, then the first one closes; then
			// newcomers arrive. The receivers connected at once never exceed the limit.
			verifsim.Go("K", func() {
				defer done.Add(1)
				si, err := w.createSession("10.0.3.1", "")
				if err != nil || si.Status != 201 {
					addV("session-create-failed", sp.Kind, fmt.Sprintf("status=%d err=%v", si.Status, err))
					return
				}
				st, host := try("10.0.3.1", si.Code, "host", "sender")
				if st != 101 {
					addV("code-refused-while-live", sp.Kind, fmt.Sprintf("host refused: HTTP %d", st))
					return
				}
				w.startReader("K>hostread", host)
				type rc struct {
					c   *websocket.Conn
					log *wsLog
				}
				var open []rc
				dial := func(i int, id string) bool {
					st, c := try(fmt.Sprintf("10.0.4.%d", i+1), si.Code, id, "receiver")
					if st != 101 {
						return false
					}
					open = append(open, rc{c, w.startReader(fmt.Sprintf("K>r%d", len(open)), c)})
					return true
				}
				for i := 0; i < sp.Limit-1; i++ {
					if !dial(i, fmt.Sprintf("r%d", i)) {
						addV("limit-refused-below-limit", sp.Kind, fmt.Sprintf("--max-receivers-per-sender %d: receiver %d of %d refused", sp.Limit, i+1, sp.Limit-1))
						return
					}
				}
				time.Sleep(50 * time.Millisecond)
				again := dial(20, "r0") // same peer id, first connection still open
				time.Sleep(50 * time.Millisecond)
				first := open[0]
				first.c.Close()
				open = open[1:]
				time.Sleep(200 * time.Millisecond)
				for i := 0; i < sp.N; i++ {
					dial(30+i, fmt.Sprintf("n%d", i))
					time.Sleep(20 * time.Millisecond)
				}
				time.Sleep(200 * time.Millisecond)
				alive := 0
				for _, o := range open {
					if _, closed := o.log.snapshot(); !closed {
						alive++
					}
				}
				res.Counters["reconnect_scenarios"]++
				if again {
					res.Counters["reconnect_admitted"]++
				}
				if alive > sp.Limit {
					addV("limit-exceeded", "max-receivers-per-sender:after-reconnect", fmt.Sprintf("--max-receivers-per-sender %d, but %d receiver connections are open at once after a receiver connected again under its peer id, its first connection closed and %d newcomers tried", sp.Limit, alive, sp.N))
				}
			})
		case "msgsize", "msgrate":
			verifsim.Go("K", func() {
				defer done.Add(1)
				si, err := w.createSession("10.0.3.1", "")
				if err != nil || si.Status != 201 {
					addV("session-create-failed", sp.Kind, fmt.Sprintf("status=%d err=%v", si.Status, err))
					return
				}
				st, host := try("10.0.3.1", si.Code, "host", "sender")
				st2, rc := try("10.0.3.2", si.Code, "r1", "receiver")
				if st != 101 || st2 != 101 {
					addV("code-refused-while-live", sp.Kind, fmt.Sprintf("HTTP %d/%d", st, st2))
					return
				}
				hl := w.startReader("K>hostread", host)
				rl := w.startReader("K>recvread", rc)
				// a peer is routable once the server has sent it its peer_list
				for i := 0; i < 500; i++ {
					he, _ := hl.snapshot()
					re, _ := rl.snapshot()
					if len(he) > 0 && len(re) > 0 {
						break
					}
					time.Sleep(10 * time.Millisecond)
				}
				type sent struct {
					id   string
					size int
					at   time.Duration
				}
				var sents []sent
				t0 := time.Now()
				send := func(id string, size int) {
					env := protocol.Envelope{V: 1, Type: "x-test", MsgID: id, To: "host"}
					b, _ := json.Marshal(env)
					if pad := size - len(b) - len(`,"payload":""`); pad > 0 {
						env.Payload = json.RawMessage(`"` + strings.Repeat("p", pad) + `"`)
						b, _ = json.Marshal(env)
					}
					sents = append(sents, sent{id, len(b), time.Since(t0)})
					rc.SetWriteDeadline(time.Now().Add(5 * time.Second))
					_ = rc.WriteMessage(websocket.TextMessage, b)
				}
				if sp.Kind == "msgsize" && sp.Limit == 0 {
					for i, sz := range []int{1000, 70000, 200000} {
						send(fmt.Sprintf("m%d", i), sz)
					}
				} else if sp.Kind == "msgsize" {
					for i, sz := range []int{sp.Limit / 2, sp.Limit - 1, sp.Limit, sp.Limit + 1, 2 * sp.Limit, sp.Limit / 2} {
						send(fmt.Sprintf("m%d", i), sz)
					}
				} else {
					for i := 0; i < sp.N; i++ {
						send(fmt.Sprintf("m%d", i), 0)
					}
				}
				time.Sleep(3 * time.Second)
				envs, _ := hl.snapshot()
				got := map[string]bool{}
				for _, e := range envs {
					if e.Type == "x-test" {
						got[e.MsgID] = true
					}
				}
				res.Counters["test_messages_forwarded"] += int64(len(got))
				if sp.Kind == "msgsize" && sp.Limit == 0 {
					for _, m := range sents {
						if !got[m.id] {
							addV("unlimited-but-refused", "max-message-bytes=0", fmt.Sprintf("--max-message-bytes 0 (no limit) but a %d-byte message was not forwarded", m.size))
							break
						}
					}
				} else if sp.Kind == "msgsize" {
					for _, m := range sents {
						if m.size > sp.Limit && got[m.id] {
							addV("limit-exceeded", "max-message-bytes", fmt.Sprintf("--max-message-bytes %d but a %d-byte message was forwarded", sp.Limit, m.size))
						}
					}
					for _, m := range sents[:3] {
						if m.size <= sp.Limit && !got[m.id] {
							addV("message-within-limit-dropped", "max-message-bytes", fmt.Sprintf("%d-byte message (limit %d) sent before any oversized one was not forwarded", m.size, sp.Limit))
						}
					}
				} else {
					// all were sent at the same simulated instant: at most burst may pass
					n := 0
					for _, m := range sents {
						if got[m.id] {
							n++
						}
					}
					allowed := sp.Limit + int(float64(sp.Rate)*sents[len(sents)-1].at.Seconds()) + 1
					if n > allowed {
						addV("limit-exceeded", "ws-msgs-per-sec", fmt.Sprintf("--ws-msgs-per-sec %d --ws-msgs-burst %d: %d of %d messages sent within %v were forwarded (allowed %d)", sp.Rate, sp.Limit, n, len(sents), sents[len(sents)-1].at, allowed))
					}
					if n < sp.Limit && n < len(sents) {
						addV("message-within-limit-dropped", "ws-msgs-burst", fmt.Sprintf("burst %d but only %d messages were forwarded", sp.Limit, n))
					}
				}
			})
		}
		outcome = w.run(func() bool { return done.Load() >= want }, 30*time.Hour)
		w.settle(5 * time.Second)
	})
	if bubblePanic != "" && !strings.Contains(bubblePanic, "deadlock: main bubble goroutine has exited") {
		addV("panic", "bubble:"+firstLineSrv(bubblePanic), bubblePanic)
	}
	if outcome != verifsim.Finished {
		addV("scenario-hang", sp.Kind, fmt.Sprintf("scenario did not finish (%v): %v", outcome, s.Waiting()))
	}
	if s != nil {
		res.LogHash, res.Steps, res.SimTime, res.QStates = s.LogHash, s.Steps, s.Since(), len(s.QStates)
		res.Nontrivial = s.Steps > 20
		for _, v := range viol {
			v.LogHash, v.Steps, v.Trace = verifsim.HashStr(s.LogHash), s.Steps, s.Log
		}
	}
	sort.Slice(viol, func(i, j int) bool { return viol[i].Class+viol[i].Signature < viol[j].Class+viol[j].Signature })
	res.Violations = viol
	res.Counters["scenario:"+sp.Kind]++
	res.Sample = sp
	return
}
