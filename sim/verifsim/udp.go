package verifsim

// SimUDP (tier T2): a datagram network on the bubble's fake clock carrying real
// quic-go. One listener socket is reachable through several alias addresses
// ("candidate paths"), each with its own up/down latency, loss and blackholing;
// the listener sees a distinct source address per path (as through a NAT).
// Delivery is timer driven (quic-go is not instrumented); every per-packet
// choice is a hash of (seed, flow, per-flow counter).

import (
	"fmt"
	"net"
	"os"
	"sync"
	"time"
)

type UDPPath struct {
	Alias     *net.UDPAddr  // address the dialer uses
	Up, Down  time.Duration // one-way latencies
	Blackhole bool          // packets vanish
	LossPm    int           // per-mille loss, both directions
	// PktTime: serialisation time per datagram (0 = infinite bandwidth): datagrams of
	// one direction leave one after the other, so that a transfer takes time in
	// proportion to its size
	PktTime   time.Duration
	busyUntil map[string]time.Time
	natSrc    *net.UDPAddr  // how the listener sees the dialer on this path
	target    *UDPSock
	origin    *UDPSock
	sent      map[string]int
	Delivered int
	Dropped   int
}

type udpPkt struct {
	b   []byte
	src net.Addr
}

type UDPSock struct {
	net    *UDPNet
	addr   *net.UDPAddr
	mu     sync.Mutex
	q      []udpPkt
	sig    chan struct{}
	closed bool
	rdl    time.Time
}

type UDPNet struct {
	mu    sync.Mutex
	Seed  uint64
	socks map[string]*UDPSock
	paths map[string]*UDPPath // by alias string and by natSrc string
	// routes: by (origin socket, alias) - several origins may reach different targets
	// under the same alias (whole-application worlds); consulted before paths
	routes map[udpRoute]*UDPPath
	Paths  []*UDPPath
}

type udpRoute struct {
	origin *UDPSock
	alias  string
}

func NewUDPNet(seed uint64) *UDPNet {
	return &UDPNet{Seed: seed, socks: map[string]*UDPSock{}, paths: map[string]*UDPPath{}, routes: map[udpRoute]*UDPPath{}}
}

func (n *UDPNet) NewSock(addr *net.UDPAddr) *UDPSock {
	s := &UDPSock{net: n, addr: addr, sig: make(chan struct{}, 1)}
	n.mu.Lock()
	n.socks[addr.String()] = s
	n.mu.Unlock()
	return s
}

// AddPath makes target reachable from origin under p.Alias.
func (n *UDPNet) AddPath(origin, target *UDPSock, p *UDPPath) {
	n.mu.Lock()
	defer n.mu.Unlock()
	idx := len(n.Paths)
	p.natSrc = &net.UDPAddr{IP: net.IPv4(10, byte(idx>>8), 3, byte(idx+1)), Port: origin.addr.Port}
	p.target, p.origin = target, origin
	p.sent = map[string]int{}
	if _, taken := n.paths[p.Alias.String()]; !taken {
		n.paths[p.Alias.String()] = p
	}
	n.routes[udpRoute{origin, p.Alias.String()}] = p
	n.paths[p.natSrc.String()] = p
	n.Paths = append(n.Paths, p)
}

func (n *UDPNet) lose(p *UDPPath, dir string) bool {
	p.sent[dir]++
	if p.LossPm <= 0 {
		return false
	}
	h := Mix(n.Seed, fmt.Sprintf("%s|%s|%d", p.Alias, dir, p.sent[dir]))
	return int(h%1000) < p.LossPm
}

func (s *UDPSock) push(b []byte, src net.Addr) {
	s.mu.Lock()
	if !s.closed {
		s.q = append(s.q, udpPkt{b: b, src: src})
	}
	s.mu.Unlock()
	select {
	case s.sig <- struct{}{}:
	default:
	}
}

func (s *UDPSock) WriteTo(b []byte, addr net.Addr) (int, error) {
	s.mu.Lock()
	closed := s.closed
	s.mu.Unlock()
	if closed {
		return 0, net.ErrClosed
	}
	n := s.net
	cp := append([]byte(nil), b...)
	n.mu.Lock()
	p := n.routes[udpRoute{s, addr.String()}]
	if p == nil {
		p = n.paths[addr.String()]
	}
	if p == nil {
		n.mu.Unlock()
		return len(b), nil // no route: silently dropped, like UDP
	}
	var lat time.Duration
	var dst *UDPSock
	var src net.Addr
	dir := "up"
	if addr.String() == p.Alias.String() && s == p.origin {
		lat, dst, src = p.Up, p.target, p.natSrc
	} else if addr.String() == p.natSrc.String() && s == p.target {
		lat, dst, src, dir = p.Down, p.origin, p.Alias, "down"
	} else {
		n.mu.Unlock()
		return len(b), nil
	}
	if p.Blackhole || n.lose(p, dir) {
		p.Dropped++
		n.mu.Unlock()
		return len(b), nil
	}
	p.Delivered++
	if p.PktTime > 0 {
		if p.busyUntil == nil {
			p.busyUntil = map[string]time.Time{}
		}
		dep := time.Now()
		if b := p.busyUntil[dir]; b.After(dep) {
			dep = b
		}
		dep = dep.Add(p.PktTime)
		p.busyUntil[dir] = dep
		lat += time.Until(dep)
	}
	n.mu.Unlock()
	time.AfterFunc(lat, func() { dst.push(cp, src) })
	return len(b), nil
}

func (s *UDPSock) ReadFrom(b []byte) (int, net.Addr, error) {
	for {
		s.mu.Lock()
		if len(s.q) > 0 {
			p := s.q[0]
			s.q = s.q[1:]
			s.mu.Unlock()
			return copy(b, p.b), p.src, nil
		}
		if s.closed {
			s.mu.Unlock()
			return 0, nil, net.ErrClosed
		}
		dl := s.rdl
		s.mu.Unlock()
		var timer <-chan time.Time
		if !dl.IsZero() {
			d := time.Until(dl)
			if d <= 0 {
				return 0, nil, os.ErrDeadlineExceeded
			}
			t := time.NewTimer(d)
			timer = t.C
			defer t.Stop()
		}
		select {
		case <-s.sig:
		case <-timer:
			return 0, nil, os.ErrDeadlineExceeded
		}
	}
}

func (s *UDPSock) Close() error {
	s.mu.Lock()
	s.closed = true
	s.mu.Unlock()
	select {
	case s.sig <- struct{}{}:
	default:
	}
	return nil
}

func (s *UDPSock) LocalAddr() net.Addr { return s.addr }
func (s *UDPSock) SetDeadline(t time.Time) error {
	return s.SetReadDeadline(t)
}
func (s *UDPSock) SetReadDeadline(t time.Time) error {
	s.mu.Lock()
	s.rdl = t
	s.mu.Unlock()
	select {
	case s.sig <- struct{}{}:
	default:
	}
	return nil
}
func (s *UDPSock) SetWriteDeadline(t time.Time) error { return nil }

// the rest of what the product uses of *net.UDPConn (verifsim.UDPConn)
func (s *UDPSock) WriteToUDP(b []byte, addr *net.UDPAddr) (int, error) { return s.WriteTo(b, addr) }
func (s *UDPSock) ReadFromUDP(b []byte) (int, *net.UDPAddr, error) {
	n, a, err := s.ReadFrom(b)
	ua, _ := a.(*net.UDPAddr)
	return n, ua, err
}
func (s *UDPSock) SetReadBuffer(int) error  { return nil }
func (s *UDPSock) SetWriteBuffer(int) error { return nil }
func (s *UDPSock) Closed() bool {
	s.mu.Lock()
	defer s.mu.Unlock()
	return s.closed
}

// SetBlackhole switches a path's blackholing on or off while a run is going on.
func (n *UDPNet) SetBlackhole(p *UDPPath, on bool) {
	n.mu.Lock()
	p.Blackhole = on
	n.mu.Unlock()
}

// PathOf returns the path whose NAT source or alias equals addr (nil if none).
func (n *UDPNet) PathOf(addr net.Addr) *UDPPath {
	n.mu.Lock()
	defer n.mu.Unlock()
	if addr == nil {
		return nil
	}
	return n.paths[addr.String()]
}

func (n *UDPNet) IndexOf(p *UDPPath) int {
	for i, q := range n.Paths {
		if q == p {
			return i
		}
	}
	return -1
}
