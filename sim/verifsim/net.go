package verifsim

// SimNet (tier T1): a stream-level model of QUIC connections whose every
// delivery is a scheduler event. Semantics are documented in DESIGN.md 2.4.

import (
	"context"
	"crypto/hmac"
	"crypto/sha256"
	"encoding/binary"
	"fmt"
	"io"
	"net"
	"os"
	"sort"
	"sync"
	"time"

	"github.com/quic-go/quic-go"
)

type NetCfg struct {
	SegMax       int           `json:"seg_max"`       // a Write is cut into segments of 1..SegMax bytes
	StreamWindow int           `json:"stream_window"` // max queued+unread bytes per stream direction (0 = unlimited)
	IdleTimeout  time.Duration `json:"idle_timeout"`
}

type segment struct {
	data []byte
	fin  bool
	off  int64
}

type pipe struct { // one direction of one stream
	queue   []segment
	recv    []byte
	finRecv bool
	finSent bool
	written int64
	deliv   int
	cuts    []int64
}

type NStream struct {
	id     uint64
	conn   *NConn
	out    *pipe
	in     *pipe
	rdl    time.Time
	wdl    time.Time
	closed bool
}

type NConn struct {
	net        *Net
	Name       string // e.g. "c0.C"
	PairName   string
	client     bool
	peer       *NConn
	streams    map[uint64]*NStream
	nextOpen   uint64
	maxVisible int64
	nextAccept uint64
	err        error
	closeSent  bool
	closeQueue bool
	closeCode  uint64
	aborted    bool
	secret     []byte
	Paused     bool // deliveries written by this side are held (partition / stall of one direction)
}

// Delivery is handed to Net.OnDeliver just before a segment is applied.
type Delivery struct {
	From   *NConn // writer side
	Stream uint64
	Index  int // global delivery index (0-based)
	SIndex int // index within this stream direction
	Offset int64
	Data   []byte // may be mutated by the hook (corruption)
	Fin    bool
}

type Action int

const (
	ActNone Action = iota
	ActAbort
	ActCloseByWriter
	ActCloseByReader
)

type Net struct {
	mu    sync.Mutex
	cond  chan struct{}
	S     *Sched
	Cfg   NetCfg
	conns []*NConn

	Deliveries int
	Bytes      int64
	Closes     int
	Aborts     int
	WindowBlk  int

	// OnDeliver may corrupt the data and ask for a connection fault right after
	// this delivery. Called from the scheduler goroutine.
	OnDeliver func(d *Delivery) Action
	// Tap observes every Write / FIN as issued by the writer (scheduler step stamped).
	Tap func(from *NConn, stream uint64, data []byte, fin bool, step int)
	// ForceCuts: "connName/streamID" -> absolute byte offsets at which segments are cut.
	ForceCuts map[string][]int64
}

func NewNet(s *Sched, cfg NetCfg) *Net {
	if cfg.SegMax <= 0 {
		cfg.SegMax = 1200
	}
	if cfg.IdleTimeout <= 0 {
		cfg.IdleTimeout = 30 * time.Second
	}
	n := &Net{cond: make(chan struct{}), S: s, Cfg: cfg, ForceCuts: map[string][]int64{}}
	return n
}

func (n *Net) changed() {
	close(n.cond)
	n.cond = make(chan struct{})
}

// Pair creates a connection; the first result is the QUIC client (dialer) end.
func (n *Net) Pair(name string) (*NConn, *NConn) {
	n.mu.Lock()
	defer n.mu.Unlock()
	sec := make([]byte, 32)
	for i := 0; i < 4; i++ {
		binary.BigEndian.PutUint64(sec[i*8:], n.S.Data.Next())
	}
	c := &NConn{net: n, Name: name + ".C", PairName: name, client: true, streams: map[uint64]*NStream{}, nextOpen: 0, maxVisible: -1, nextAccept: 1, secret: sec}
	s := &NConn{net: n, Name: name + ".S", PairName: name, client: false, streams: map[uint64]*NStream{}, nextOpen: 1, maxVisible: -1, nextAccept: 0, secret: sec}
	c.peer, s.peer = s, c
	n.conns = append(n.conns, c, s)
	return c, s
}

// Events lists the enabled network events.
func (n *Net) Events() []Event {
	n.mu.Lock()
	defer n.mu.Unlock()
	var evs []Event
	for _, c := range n.conns {
		c := c
		if c.aborted {
			continue
		}
		if c.closeQueue && !c.closeSent {
			evs = append(evs, Event{Key: "cls/" + c.Name, Fire: func() { n.deliverClose(c) }})
			continue
		}
		if c.err != nil || c.Paused {
			continue
		}
		ids := make([]uint64, 0, len(c.streams))
		for id, st := range c.streams {
			if len(st.out.queue) > 0 {
				ids = append(ids, id)
			}
		}
		sort.Slice(ids, func(i, j int) bool { return ids[i] < ids[j] })
		for _, id := range ids {
			st := c.streams[id]
			evs = append(evs, Event{Key: fmt.Sprintf("dlv/%s/%04d", c.Name, id), Fire: func() { n.deliver(st) }})
		}
	}
	return evs
}

func (n *Net) deliver(st *NStream) {
	n.mu.Lock()
	if len(st.out.queue) == 0 || st.conn.err != nil || st.conn.aborted {
		n.mu.Unlock()
		return
	}
	seg := st.out.queue[0]
	st.out.queue = st.out.queue[1:]
	pc := st.conn.peer
	if pc.err != nil {
		n.mu.Unlock()
		return
	}
	act := ActNone
	if n.OnDeliver != nil {
		d := &Delivery{From: st.conn, Stream: st.id, Index: n.Deliveries, SIndex: st.out.deliv, Offset: seg.off, Data: seg.data, Fin: seg.fin}
		act = n.OnDeliver(d)
		seg.data = d.Data
	}
	n.Deliveries++
	st.out.deliv++
	n.Bytes += int64(len(seg.data))
	st.out.recv = append(st.out.recv, seg.data...)
	if seg.fin {
		st.out.finRecv = true
	}
	if (st.id%2 == 0) == st.conn.client && st.id%4 < 2 { // stream opened by the writer: becomes visible, with all lower ids
		if int64(st.id) > pc.maxVisible {
			pc.maxVisible = int64(st.id)
		}
	}
	switch act {
	case ActAbort:
		n.abortLocked(st.conn)
	case ActCloseByWriter:
		n.closeLocked(st.conn, 0)
	case ActCloseByReader:
		n.closeLocked(pc, 0)
	}
	n.changed()
	n.mu.Unlock()
}

func (n *Net) deliverClose(c *NConn) {
	n.mu.Lock()
	defer n.mu.Unlock()
	c.closeSent = true
	if c.peer.err == nil && !c.aborted {
		c.peer.err = &quic.ApplicationError{Remote: true, ErrorCode: quic.ApplicationErrorCode(c.closeCode)}
	}
	n.changed()
}

func (n *Net) closeLocked(c *NConn, code uint64) {
	if c.err == nil {
		c.err = &quic.ApplicationError{Remote: false, ErrorCode: quic.ApplicationErrorCode(code)}
		c.closeQueue = true
		c.closeCode = code
		n.Closes++
		n.changed()
		n.S.Kick()
	}
}

func (n *Net) abortLocked(c *NConn) {
	if c.aborted {
		return
	}
	c.aborted = true
	c.peer.aborted = true
	n.Aborts++
	a, b := c, c.peer
	time.AfterFunc(n.Cfg.IdleTimeout, func() {
		n.mu.Lock()
		if a.err == nil {
			a.err = &quic.IdleTimeoutError{}
		}
		if b.err == nil {
			b.err = &quic.IdleTimeoutError{}
		}
		n.changed()
		n.mu.Unlock()
	})
}

// Abort drops the path: nothing is delivered any more in either direction and
// both ends fail with an idle timeout later.
func (c *NConn) Abort() {
	c.net.mu.Lock()
	c.net.abortLocked(c)
	c.net.mu.Unlock()
}

// KillLocal models the death of the process owning this end: local operations
// fail, the peer sees silence and then an idle timeout.
func (c *NConn) KillLocal() {
	n := c.net
	n.mu.Lock()
	n.abortLocked(c)
	if c.err == nil {
		c.err = ErrNodeDead
	}
	n.changed()
	n.mu.Unlock()
}

func (c *NConn) SetPaused(p bool) {
	c.net.mu.Lock()
	c.Paused = p
	c.net.mu.Unlock()
	c.net.S.Kick()
}

func (n *Net) wait(ch chan struct{}, ctx context.Context, dl time.Time) error {
	var timer <-chan time.Time
	if !dl.IsZero() {
		d := time.Until(dl)
		if d <= 0 {
			return os.ErrDeadlineExceeded
		}
		t := time.NewTimer(d)
		defer t.Stop()
		timer = t.C
	}
	var done <-chan struct{}
	if ctx != nil {
		done = ctx.Done()
	}
	select {
	case <-ch:
		return nil
	case <-done:
		return ctx.Err()
	case <-timer:
		return os.ErrDeadlineExceeded
	}
}

func (c *NConn) IsClient() bool { return c.client }

func (c *NConn) Err() error {
	c.net.mu.Lock()
	defer c.net.mu.Unlock()
	return c.err
}

func (c *NConn) OpenStream(ctx context.Context) (*NStream, error) {
	Y("net.OpenStream", "net:open")
	n := c.net
	n.mu.Lock()
	defer n.mu.Unlock()
	if c.err != nil {
		return nil, fmt.Errorf("failed to open QUIC stream: %w", c.err)
	}
	id := c.nextOpen
	c.nextOpen += 4
	a := &pipe{}
	b := &pipe{}
	local := &NStream{id: id, conn: c, out: a, in: b}
	remote := &NStream{id: id, conn: c.peer, out: b, in: a}
	if cuts, ok := n.ForceCuts[fmt.Sprintf("%s/%d", c.Name, id)]; ok {
		a.cuts = append([]int64(nil), cuts...)
	}
	if cuts, ok := n.ForceCuts[fmt.Sprintf("%s/%d", c.peer.Name, id)]; ok {
		b.cuts = append([]int64(nil), cuts...)
	}
	c.streams[id] = local
	c.peer.streams[id] = remote
	return local, nil
}

func (c *NConn) AcceptStream(ctx context.Context) (*NStream, error) {
	n := c.net
	for {
		n.mu.Lock()
		if c.err != nil {
			err := c.err
			n.mu.Unlock()
			return nil, fmt.Errorf("failed to accept QUIC stream: %w", err)
		}
		if int64(c.nextAccept) <= c.maxVisible {
			id := c.nextAccept
			c.nextAccept += 4
			st := c.streams[id]
			n.mu.Unlock()
			return st, nil
		}
		ch := n.cond
		n.mu.Unlock()
		if err := n.wait(ch, ctx, time.Time{}); err != nil {
			return nil, fmt.Errorf("failed to accept QUIC stream: %w", err)
		}
	}
}

func (c *NConn) RemoteAddr() net.Addr {
	if c.client {
		return &net.UDPAddr{IP: net.IPv4(10, 0, 0, 2), Port: 4242}
	}
	return &net.UDPAddr{IP: net.IPv4(10, 0, 0, 1), Port: 4242}
}

// Close is CloseWithError(0, "").
func (c *NConn) Close() error { return c.CloseWithCode(0) }

func (c *NConn) CloseWithCode(code uint64) error {
	Y("net.ConnClose", "net:connclose")
	n := c.net
	n.mu.Lock()
	defer n.mu.Unlock()
	n.closeLocked(c, code)
	return nil
}

// ExportKeyingMaterial stands in for the TLS exporter: both ends of one
// simulated session derive the same bytes, different sessions differ.
func (c *NConn) ExportKeyingMaterial(label string, context []byte, length int) ([]byte, error) {
	out := make([]byte, 0, length)
	ctr := byte(0)
	for len(out) < length {
		m := hmac.New(sha256.New, c.secret)
		m.Write([]byte(label))
		m.Write([]byte{0})
		m.Write(context)
		m.Write([]byte{ctr})
		out = m.Sum(out)
		ctr++
	}
	return out[:length], nil
}

func (s *NStream) StreamID() uint64 { return s.id }
func (s *NStream) Conn() *NConn     { return s.conn }

func (s *NStream) Read(p []byte) (int, error) {
	n := s.conn.net
	for {
		n.mu.Lock()
		if s.closed {
			n.mu.Unlock()
			return 0, io.ErrClosedPipe
		}
		if s.conn.err != nil {
			err := s.conn.err
			n.mu.Unlock()
			return 0, err
		}
		if len(s.in.recv) > 0 {
			k := copy(p, s.in.recv)
			s.in.recv = s.in.recv[k:]
			if n.Cfg.StreamWindow > 0 {
				n.changed() // a blocked writer may proceed
			}
			n.mu.Unlock()
			return k, nil
		}
		if s.in.finRecv {
			n.mu.Unlock()
			return 0, io.EOF
		}
		if len(p) == 0 {
			n.mu.Unlock()
			return 0, nil
		}
		ch := n.cond
		dl := s.rdl
		n.mu.Unlock()
		if err := n.wait(ch, nil, dl); err != nil {
			return 0, err
		}
	}
}

func (p *pipe) inFlight() int {
	t := len(p.recv)
	for _, s := range p.queue {
		t += len(s.data)
	}
	return t
}

func (s *NStream) Write(p []byte) (int, error) {
	Y("net.Write", "net:write")
	n := s.conn.net
	written := 0
	for {
		n.mu.Lock()
		if s.closed {
			n.mu.Unlock()
			return written, io.ErrClosedPipe
		}
		if s.conn.err != nil {
			err := s.conn.err
			n.mu.Unlock()
			return written, err
		}
		room := len(p) - written
		if w := n.Cfg.StreamWindow; w > 0 {
			if r := w - s.out.inFlight(); r < room {
				room = r
			}
		}
		if room > 0 {
			chunk := p[written : written+room]
			if n.Tap != nil {
				n.Tap(s.conn, s.id, chunk, false, n.S.Steps)
			}
			rest := chunk
			for len(rest) > 0 {
				k := len(rest)
				if k > 1 {
					m := n.Cfg.SegMax
					if k > m {
						k = m
					}
					k = 1 + int(n.S.Data.Next()%uint64(k))
				}
				// forced cuts
				for len(s.out.cuts) > 0 && s.out.cuts[0] <= s.out.written {
					s.out.cuts = s.out.cuts[1:]
				}
				if len(s.out.cuts) > 0 {
					if d := s.out.cuts[0] - s.out.written; d < int64(k) {
						k = int(d)
					}
				}
				s.out.queue = append(s.out.queue, segment{data: append([]byte(nil), rest[:k]...), off: s.out.written})
				s.out.written += int64(k)
				rest = rest[k:]
			}
			written += room
			n.S.Kick()
		}
		if written == len(p) {
			n.mu.Unlock()
			return written, nil
		}
		n.WindowBlk++
		ch := n.cond
		dl := s.wdl
		n.mu.Unlock()
		if err := n.wait(ch, nil, dl); err != nil {
			return written, err
		}
	}
}

// Close sends FIN and (like the repo's QUIC wrapper) makes later local reads
// and writes fail.
func (s *NStream) Close() error {
	Y("net.StreamClose", "net:close")
	n := s.conn.net
	n.mu.Lock()
	defer n.mu.Unlock()
	if s.closed {
		return nil
	}
	s.closed = true
	if !s.out.finSent && s.conn.err == nil {
		s.out.finSent = true
		if n.Tap != nil {
			n.Tap(s.conn, s.id, nil, true, n.S.Steps)
		}
		s.out.queue = append(s.out.queue, segment{fin: true, off: s.out.written})
		n.S.Kick()
	}
	n.changed()
	return nil
}

func (s *NStream) SetReadDeadline(t time.Time) error {
	s.conn.net.mu.Lock()
	s.rdl = t
	s.conn.net.mu.Unlock()
	return nil
}
func (s *NStream) SetWriteDeadline(t time.Time) error {
	s.conn.net.mu.Lock()
	s.wdl = t
	s.conn.net.mu.Unlock()
	return nil
}
func (s *NStream) SetDeadline(t time.Time) error {
	s.conn.net.mu.Lock()
	s.rdl, s.wdl = t, t
	s.conn.net.mu.Unlock()
	return nil
}

// Shutdown wakes every waiter (used in the drain phase).
func (n *Net) Shutdown() {
	n.mu.Lock()
	for _, c := range n.conns {
		if c.err == nil {
			c.err = io.ErrClosedPipe
		}
	}
	n.changed()
	n.mu.Unlock()
}
