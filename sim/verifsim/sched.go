// Package verifsim is the deterministic simulator core that the /verif build
// overlay adds to the repository as internal/verifsim. It is never part of a
// shipped binary. When no scheduler is installed every entry point is a no-op
// (or calls straight through), so instrumented code behaves like the original.
package verifsim

import (
	"reflect"
	"fmt"
	"os"
	"runtime"
	"sort"
	"strconv"
	"strings"
	"sync"
	"sync/atomic"
	"testing/synctest"
	"time"
	_ "unsafe"
)

//go:linkname setSelectSeed runtime.verifSetSelectSeed
func setSelectSeed(s uint64)

//go:linkname goid runtime.verifGoid
func goid() uint64

// SplitMix is the only source of randomness of a run.
type SplitMix struct{ s uint64 }

func NewSplitMix(seed uint64) *SplitMix { return &SplitMix{s: seed*0x9E3779B97F4A7C15 + 0x1234567} }

func (r *SplitMix) Next() uint64 {
	r.s += 0x9E3779B97F4A7C15
	z := r.s
	z = (z ^ (z >> 30)) * 0xBF58476D1CE4E5B9
	z = (z ^ (z >> 27)) * 0x94D049BB133111EB
	return z ^ (z >> 31)
}

// Intn returns a value in [0,n).
func (r *SplitMix) Intn(n int) int {
	if n <= 1 {
		return 0
	}
	return int(r.Next() % uint64(n))
}

func (r *SplitMix) Chance(num, den int) bool { return r.Intn(den) < num }

func Mix(a uint64, s string) uint64 {
	h := a ^ 0xcbf29ce484222325
	for i := 0; i < len(s); i++ {
		h ^= uint64(s[i])
		h *= 0x100000001b3
	}
	h ^= h >> 29
	h *= 0xBF58476D1CE4E5B9
	h ^= h >> 32
	return h
}

type parked struct {
	name string
	site string
	kind string
	try  func() bool
	ch   chan struct{}
	seq  uint64
	// lock waits: identity of the mutex, read or write, and whether this writer has
	// already been refused once - from then on it is a *pending* writer, and
	// sync.RWMutex lets no new reader in while a writer is pending
	mid       uintptr
	write     bool
	announced bool
}

// Event is a simulator-owned action (network delivery, fault, timer of the
// harness). Keys must be unique among the currently enabled events.
type Event struct {
	Key  string
	Fire func()
}

// Strategy selects how the next step is chosen.
type Strategy struct {
	Kind          string `json:"kind"`                      // rand | weighted | pct | fifo
	Seed          uint64 `json:"seed"`                      // strategy-local seed
	D             int    `json:"d,omitempty"`               // pct: number of priority change points
	Horizon       int    `json:"horizon,omitempty"`         // pct: steps over which change points are spread
	StallPer      int    `json:"stall_per,omitempty"`       // per-10000 chance per step of a clock stall while work is runnable
	MaxW          int    `json:"max_w,omitempty"`           // weighted: weights drawn in 1..MaxW per key
	Starve        string `json:"starve,omitempty"`          // substring: matching candidates run only when nothing else can
	StallBudgetMs int    `json:"stall_budget_ms,omitempty"` // total simulated time that drawn stalls may consume (default 20 s)
	StarveExact   string `json:"starve_exact,omitempty"`    // candidate with exactly this name runs only when nothing else can
}

// Outcome of Sched.Run.
type Outcome int

const (
	Finished  Outcome = iota
	Deadline          // simulated deadline passed
	Idle              // no progress for the idle cut
	Diverged          // replay vector did not fit the execution
	Aborted           // OnQuiesce returned an error
	StepLimit         // more scheduling steps than any legitimate run of this harness takes (livelock)
)

func (o Outcome) String() string {
	return [...]string{"finished", "deadline", "idle", "diverged", "aborted", "step-limit"}[o]
}

type Sched struct {
	mu      sync.Mutex
	active  bool
	// Panics: node -> message and stack of the first panic recovered in one of its goroutines
	Panics map[string]string
	started atomic.Bool // Run has begun: spawns park their parent from here on
	parked  []*parked
	names   map[uint64]string
	spawn   map[string]int
	anon    map[string]int
	wake    chan struct{}
	stopCh  chan struct{}
	parkSeq uint64

	Pick  *SplitMix // scheduling picks
	Data  *SplitMix // everything else (segment cuts, latencies ...)
	Strat Strategy
	seed  uint64

	prio     map[string]uint64
	changeAt map[int]int
	weight   map[string]int

	Steps      int
	MaxSteps   int
	Ticks      int
	idleStreak int
	Stalls     int
	StallTime  time.Duration
	LogHash    uint64
	Log        []string
	KeepLog    int
	Decisions  []int32 // chosen index per step (-1 = tick)
	Replay     []int32
	Record     bool

	Events    func() []Event
	OnQuiesce func() error
	AbortErr  error

	dead      map[string]bool // node names
	exits     map[string]int
	Crash     *CrashPlan
	OnCrash   func(node string)
	OnSignal  func(node string)
	crashCnt  map[string]int
	pendingW  map[uintptr]int // mutex id -> writers that have called Lock and wait
	CrashSeen map[string]int // crash points seen per "node/kind"

	lastProgress time.Time
	t0           time.Time
	Elapsed      time.Duration
	IdleQuantum  time.Duration

	SiteHits map[string]int
	lastSite map[string]string
	QStates  map[uint64]struct{}

	lastStepWall atomic.Int64

	FS *FSState
}

// CrashPlan kills node Node when its N-th (1-based) crash point of kind Kind
// ("fs", "net" or "any") is about to run. Torn>0: the operation is applied
// partially (Torn per-mille of its length) before the crash.
type CrashPlan struct {
	Node  string `json:"node"`
	Kind  string `json:"kind"`
	N     int    `json:"n"`
	Torn  int    `json:"torn,omitempty"`
	// Signal: instead of dying at that point the node receives an interrupt signal
	// there (OnSignal runs; the node goes on until its handler exits the process).
	Signal bool `json:"signal,omitempty"`
	Fired  bool `json:"-"`
	Site  string `json:"-"`
}

// S is the installed scheduler (nil = not simulating).
var S *Sched

func New(seed uint64, strat Strategy) *Sched {
	s := &Sched{
		names: map[uint64]string{}, spawn: map[string]int{}, anon: map[string]int{},
		wake: make(chan struct{}, 1), stopCh: make(chan struct{}), active: true,
		Pick: NewSplitMix(seed ^ 0xA5A5A5A5), Data: NewSplitMix(seed ^ 0x5A5A5A5A5A), Strat: strat, seed: seed,
		prio: map[string]uint64{}, changeAt: map[int]int{}, weight: map[string]int{},
		KeepLog: keepLogDefault(), MaxSteps: 5000000, dead: map[string]bool{}, exits: map[string]int{}, crashCnt: map[string]int{},
		CrashSeen: map[string]int{}, IdleQuantum: 100 * time.Millisecond,
		SiteHits: map[string]int{}, QStates: map[uint64]struct{}{}, lastSite: map[string]string{},
	}
	if v, err := strconv.Atoi(os.Getenv("VERIF_KEEPLOG")); err == nil && v > 0 {
		s.KeepLog = v
	}
	if strat.Kind == "pct" {
		h := strat.Horizon
		if h < 10 {
			h = 2000
		}
		r := NewSplitMix(strat.Seed ^ 0x77)
		for i := 0; i < strat.D; i++ {
			s.changeAt[r.Intn(h)] = i + 1
		}
	}
	return s
}

func (s *Sched) nameOfLocked(site string) string {
	id := goid()
	if n, ok := s.names[id]; ok {
		return n
	}
	s.anon[site]++
	n := fmt.Sprintf("anon@%s#%d", site, s.anon[site])
	s.names[id] = n
	return n
}

// SetName names the calling goroutine.
func SetName(n string) {
	s := S
	if s == nil {
		return
	}
	s.mu.Lock()
	s.names[goid()] = n
	s.mu.Unlock()
}

// Name returns the simulator name of the calling goroutine ("" if none).
func Name() string {
	s := S
	if s == nil {
		return ""
	}
	s.mu.Lock()
	defer s.mu.Unlock()
	return s.names[goid()]
}

// NodeOf returns the node part (up to the first '>') of a goroutine name.
func NodeOf(name string) string {
	if i := strings.IndexByte(name, '>'); i >= 0 {
		return name[:i]
	}
	return name
}

// Node returns the node the calling goroutine belongs to.
func Node() string { return NodeOf(Name()) }

// BeforeGo is generated before every go statement; Born is the first statement
// of the child. Together they give goroutines names that do not depend on goids.
func BeforeGo(site string) string {
	s := S
	if s == nil || !s.active {
		return ""
	}
	s.mu.Lock()
	defer s.mu.Unlock()
	parent := s.nameOfLocked(site)
	k := parent + ">" + site
	s.spawn[k]++
	return fmt.Sprintf("%s#%d", k, s.spawn[k])
}

// AfterFunc replaces time.AfterFunc in instrumented code: the callback's goroutine is
// named at the time the timer is armed and parks at birth.
func AfterFunc(site string, d time.Duration, f func()) *time.Timer {
	n := BeforeGo(site)
	if n == "" {
		return time.AfterFunc(d, f)
	}
	return time.AfterFunc(d, func() {
		Born(n)
		f()
	})
}

func Born(name string) {
	s := S
	if s == nil || name == "" {
		return
	}
	s.mu.Lock()
	s.names[goid()] = name
	s.mu.Unlock()
	// A new goroutine parks at birth: several goroutines started in one step
	// would otherwise race to their first blocking operation (e.g. the order
	// in which pool workers queue up on a channel).
	if s.active {
		s.park("go:start", "start", nil)
	}
}

// Go starts a named root goroutine (a node, or a helper of the harness).
func Go(name string, f func()) {
	go func() {
		defer RecoverNode()
		Born(name)
		f()
	}()
}

// RecoverPanics (set by whole-application harnesses): a panic in a goroutine of a
// simulated process ends that process with status 2, as the Go runtime would, and is
// recorded in Sched.Panics; the worker lives on. Off, RecoverNode does nothing and a
// panic takes its ordinary course (other harnesses judge the worker's death).
var RecoverPanics bool

// RecoverNode is deferred first in every goroutine the instrumented code starts.
func RecoverNode() {
	if !RecoverPanics {
		return
	}
	r := recover()
	if r == nil {
		return
	}
	s := S
	if s == nil {
		panic(r)
	}
	buf := make([]byte, 16<<10)
	buf = buf[:runtime.Stack(buf, false)]
	s.mu.Lock()
	node := NodeOf(s.nameOfLocked("panic"))
	if s.Panics == nil {
		s.Panics = map[string]string{}
	}
	if _, ok := s.Panics[node]; !ok {
		s.Panics[node] = fmt.Sprintf("panic: %v\n%s", r, buf)
	}
	if _, ok := s.exits[node]; !ok {
		s.exits[node] = 2
	}
	s.dead[node] = true
	cb := s.OnCrash
	s.mu.Unlock()
	if cb != nil {
		cb(node)
	}
	s.Kick()
}

// Kick wakes the scheduler loop (used by simulated I/O when it creates events).
func (s *Sched) Kick() {
	select {
	case s.wake <- struct{}{}:
	default:
	}
}

// Progress notes that something observable happened (delivery, file operation).
func (s *Sched) Progress() {
	s.mu.Lock()
	s.lastProgress = time.Now()
	s.mu.Unlock()
}

func (s *Sched) park(site, kind string, try func() bool) {
	p := &parked{site: site, kind: kind, try: try, ch: make(chan struct{})}
	s.mu.Lock()
	if !s.active {
		s.mu.Unlock()
		return
	}
	p.name = s.nameOfLocked(site)
	s.parked = append(s.parked, p)
	s.mu.Unlock()
	s.Kick()
	<-p.ch
	if ExitedStayDead {
		// released because the run is over: a goroutine of a process that has exited or was
		// killed must not run on (its deferred calls would: os.Exit runs none)
		s.mu.Lock()
		gone := !s.active && s.dead[NodeOf(p.name)]
		s.mu.Unlock()
		if gone {
			select {}
		}
	}
}

// ExitedStayDead (set by whole-application harnesses): goroutines of a process that has
// exited or was killed block for good instead of unwinding when the run ends; the
// bubble's end-of-run "blocked goroutines remain" panic is expected and recovered.
var ExitedStayDead bool

// Y is a generated yield point: the goroutine parks until the scheduler
// releases it.
func Y(site, kind string) {
	s := S
	if s == nil || !s.active {
		return
	}
	if kind == "spawned" && (!s.started.Load() || Name() == "main") {
		// a spawn made by the harness itself while it sets a run up
		return
	}
	s.park(site, kind, nil)
}

// OnceDo replaces once.Do(f) in instrumented code: the Once's mutex is taken through
// the scheduler (park, try, re-park), so that a caller that finds another goroutine
// inside f waits where the scheduler can see it.
func OnceDo(site string, o *sync.Once, f func()) {
	if o.VerifDone() {
		return
	}
	s := S
	if s == nil || !s.active {
		o.Do(f)
		return
	}
	AcquireM(site, o.VerifTryLock, o.VerifLock, 0, true)
	o.VerifFinish(f)
}

// SpinLocks makes Acquire poll with durable sleeps when no scheduler is
// installed (T2: instrumented repo code running unscheduled in a bubble).
var SpinLocks bool

// Acquire replaces x.Lock()/x.RLock(): the goroutine parks and the scheduler
// performs the TryLock on its behalf when it picks it, so a contended lock is
// a scheduler-visible wait and never a non-durable block.
func Acquire(site string, try func() bool, lock func()) { AcquireM(site, try, lock, 0, true) }

// MutexID gives a lock wait the identity of its mutex: p is &recv for the receiver
// expression of the Lock/RLock call (a pointer to the mutex, or to a pointer to it).
func MutexID(p any) uintptr {
	v := reflect.ValueOf(p)
	if v.Kind() != reflect.Pointer || v.IsNil() {
		return 0
	}
	if v.Elem().Kind() == reflect.Pointer {
		v = v.Elem()
		if v.IsNil() {
			return 0
		}
	}
	return v.Pointer()
}

// AcquireM is Acquire with the mutex identity (0 = unknown) and the kind of lock.
func AcquireM(site string, try func() bool, lock func(), mid uintptr, write bool) {
	s := S
	if s == nil {
		if SpinLocks {
			// unscheduled tier inside a bubble: a goroutine blocked on a sync.Mutex
			// is not durably blocked and would freeze the fake clock
			for !try() {
				time.Sleep(20 * time.Microsecond)
			}
			return
		}
		lock()
		return
	}
	if s.active {
		p := &parked{site: site, kind: "lock", try: try, ch: make(chan struct{}), mid: mid, write: write}
		s.mu.Lock()
		if s.active {
			p.name = s.nameOfLocked(site)
			s.parked = append(s.parked, p)
			s.mu.Unlock()
			s.Kick()
			<-p.ch
			if p.try == nil { // acquired by the scheduler
				return
			}
		} else {
			s.mu.Unlock()
		}
	}
	// scheduler stopped (drain phase): poll with a durable sleep
	for !try() {
		time.Sleep(time.Millisecond)
	}
}

// Exit replaces os.Exit in simulated code: the node's process is gone.
func Exit(code int) {
	s := S
	if s == nil {
		os.Exit(code)
	}
	s.mu.Lock()
	node := NodeOf(s.nameOfLocked("exit"))
	if _, ok := s.exits[node]; !ok {
		s.exits[node] = code
	}
	s.dead[node] = true
	cb := s.OnCrash
	s.mu.Unlock()
	if cb != nil {
		cb(node)
	}
	s.Kick()
	<-s.stopCh
	if ExitedStayDead {
		select {}
	}
	runtime.Goexit()
}

// Exited reports whether (and with which code) a node called os.Exit.
func (s *Sched) Exited(node string) (int, bool) {
	s.mu.Lock()
	defer s.mu.Unlock()
	c, ok := s.exits[node]
	return c, ok
}

// Kill makes every goroutine of the node stop for good (kill -9).
func (s *Sched) Kill(node string) {
	s.mu.Lock()
	s.dead[node] = true
	s.mu.Unlock()
}

func (s *Sched) IsDead(node string) bool {
	s.mu.Lock()
	defer s.mu.Unlock()
	return s.dead[node]
}

type cand struct {
	key string
	g   *parked
	ev  *Event
}

// tryLock performs a lock waiter's attempt with sync.RWMutex's writer preference: a
// writer that has been refused once is pending, and while a writer is pending on a
// mutex no reader gets in (its TryRLock would succeed - Go's RLock would block).
func (s *Sched) tryLock(p *parked) bool {
	if p.mid != 0 && !p.write && s.pendingW[p.mid] > 0 {
		return false
	}
	ok := p.try()
	if p.mid != 0 && p.write {
		if !ok && !p.announced {
			p.announced = true
			if s.pendingW == nil {
				s.pendingW = map[uintptr]int{}
			}
			s.pendingW[p.mid]++
		} else if ok && p.announced {
			p.announced = false
			s.pendingW[p.mid]--
		}
	}
	return ok
}

func (s *Sched) record(kind, key, site string, n int) {
	s.Steps++
	h := s.LogHash
	h = Mix(h, kind)
	h = Mix(h, key)
	h = Mix(h, site)
	h = Mix(h+uint64(n), "")
	s.LogHash = h
	if len(s.Log) < s.KeepLog {
		s.Log = append(s.Log, fmt.Sprintf("%d %s %s @%s /%d t=%v", s.Steps, kind, key, site, n, time.Since(s.t0)))
	}
	s.lastStepWall.Add(1)
}

var _ = sort.Strings

func (s *Sched) weightOf(key string) int {
	if w, ok := s.weight[key]; ok {
		return w
	}
	m := s.Strat.MaxW
	if m < 2 {
		m = 8
	}
	w := 1 + int(Mix(s.Strat.Seed, key)%uint64(m))
	// square some of them to create strongly slow actors
	if Mix(s.Strat.Seed^0x99, key)%4 == 0 {
		w = w * w
	}
	s.weight[key] = w
	return w
}

func (s *Sched) prioOf(key string) uint64 {
	if p, ok := s.prio[key]; ok {
		return p
	}
	p := Mix(s.Strat.Seed, key) | (1 << 63)
	s.prio[key] = p
	return p
}

// choose returns an index into cs.
func (s *Sched) choose(cs []cand) int {
	if len(cs) == 1 {
		return 0
	}
	if st, ex := s.Strat.Starve, s.Strat.StarveExact; st != "" || ex != "" {
		var keep []int
		for i := range cs {
			if (st == "" || !strings.Contains(cs[i].key, st)) && (ex == "" || cs[i].key != ex) {
				keep = append(keep, i)
			}
		}
		if len(keep) > 0 && len(keep) < len(cs) {
			sub := make([]cand, len(keep))
			for i, k := range keep {
				sub[i] = cs[k]
			}
			saved, savedEx := s.Strat.Starve, s.Strat.StarveExact
			s.Strat.Starve, s.Strat.StarveExact = "", ""
			j := s.choose(sub)
			s.Strat.Starve, s.Strat.StarveExact = saved, savedEx
			return keep[j]
		}
	}
	switch s.Strat.Kind {
	case "fifo":
		best := 0
		for i := range cs {
			if seqOf(cs[i]) < seqOf(cs[best]) {
				best = i
			}
		}
		return best
	case "pct":
		best := 0
		for i := range cs {
			if s.prioOf(cs[i].key) > s.prioOf(cs[best].key) {
				best = i
			}
		}
		if k, ok := s.changeAt[s.Steps]; ok {
			s.prio[cs[best].key] = uint64(k)
			delete(s.changeAt, s.Steps)
		}
		return best
	case "weighted":
		tot := 0
		for i := range cs {
			tot += s.weightOf(cs[i].key)
		}
		r := s.Pick.Intn(tot)
		for i := range cs {
			r -= s.weightOf(cs[i].key)
			if r < 0 {
				return i
			}
		}
		return len(cs) - 1
	default:
		return s.Pick.Intn(len(cs))
	}
}

func seqOf(c cand) uint64 {
	if c.g != nil {
		return c.g.seq
	}
	return 1 << 62 // events after goroutines in fifo
}

var stallQuanta = []time.Duration{time.Millisecond, 30 * time.Millisecond, 250 * time.Millisecond, 400 * time.Millisecond, 1100 * time.Millisecond, 2500 * time.Millisecond}

// Run drives the bubble until stop() holds at quiescence.
func (s *Sched) Run(stop func() bool, deadline time.Time, idleCut time.Duration) (out Outcome) {
	s.started.Store(true)
	s.t0 = time.Now()
	defer func() { s.Elapsed += time.Since(s.t0) }()
	s.lastProgress = s.t0
	replayPos := 0
	for {
		synctest.Wait()
		if s.OnQuiesce != nil {
			if err := s.OnQuiesce(); err != nil {
				s.AbortErr = err
				return Aborted
			}
		}
		if stop() {
			return Finished
		}
		now := time.Now()
		if now.After(deadline) {
			return Deadline
		}
		if s.MaxSteps > 0 && s.Steps > s.MaxSteps {
			return StepLimit
		}
		s.mu.Lock()
		if idleCut > 0 && now.Sub(s.lastProgress) > idleCut {
			s.mu.Unlock()
			return Idle
		}
		var cs []cand
		for _, p := range s.parked {
			if s.dead[NodeOf(p.name)] {
				continue
			}
			cs = append(cs, cand{key: p.name, g: p})
		}
		var evs []Event
		if s.Events != nil {
			s.mu.Unlock()
			evs = s.Events()
			s.mu.Lock()
			for i := range evs {
				cs = append(cs, cand{key: "~" + evs[i].Key, ev: &evs[i]})
			}
		}
		sort.Slice(cs, func(i, j int) bool { return cs[i].key < cs[j].key })
		// arrival numbers are handed out here, in name order, so that they do not
		// depend on which of several simultaneously woken goroutines parked first
		for i := range cs {
			if g := cs[i].g; g != nil && g.seq == 0 {
				s.parkSeq++
				g.seq = s.parkSeq
			}
		}
		if len(s.QStates) < 200000 {
			var q uint64
			for _, c := range cs {
				q = Mix(q, c.key)
				if c.g != nil {
					q = Mix(q, c.g.site)
				}
			}
			s.QStates[q] = struct{}{}
		}
		n := len(cs)
		var chosen *cand
		chosenIdx := -1
		if s.Replay != nil {
			if replayPos >= len(s.Replay) {
				s.mu.Unlock()
				return Diverged
			}
			idx := int(s.Replay[replayPos])
			replayPos++
			if idx >= n {
				s.mu.Unlock()
				return Diverged
			}
			if idx >= 0 {
				c := cs[idx]
				if c.g != nil && c.g.try != nil && !c.g.try() {
					s.mu.Unlock()
					return Diverged
				}
				chosen, chosenIdx = &c, idx
			}
		} else {
			stall := n > 0 && s.Strat.StallPer > 0 && s.Pick.Intn(10000) < s.Strat.StallPer
			if stall && s.StallTime >= s.stallBudget() {
				stall = false
			}
			if !stall {
				live := make([]cand, len(cs))
				copy(live, cs)
				idxs := make([]int, len(cs))
				for i := range idxs {
					idxs[i] = i
				}
				for len(live) > 0 {
					i := s.choose(live)
					c := live[i]
					if c.g != nil && c.g.try != nil && !s.tryLock(c.g) {
						live = append(live[:i], live[i+1:]...)
						idxs = append(idxs[:i], idxs[i+1:]...)
						continue
					}
					chosen, chosenIdx = &c, idxs[i]
					break
				}
			}
		}
		if s.Record {
			s.Decisions = append(s.Decisions, int32(chosenIdx))
		}
		if chosen == nil {
			// advance the clock: a stall (work was runnable) or plain idling
			q := s.IdleQuantum
			kind := "T"
			if s.Replay != nil {
				if code := int(s.Replay[replayPos-1]); code <= -2 {
					qi := -code - 2
					if qi >= len(stallQuanta) {
						s.mu.Unlock()
						return Diverged
					}
					q = stallQuanta[qi]
					kind = "Tstall"
				}
			} else if n > 0 {
				// either a drawn stall or everything runnable is lock-blocked
				qi := s.Pick.Intn(len(stallQuanta))
				q = stallQuanta[qi]
				kind = "Tstall"
				if s.Record {
					s.Decisions[len(s.Decisions)-1] = int32(-2 - qi)
				}
			}
			if kind == "Tstall" {
				s.Stalls++
				s.StallTime += q
			}
			if kind == "T" {
				// nothing is runnable: lengthen the idle quantum while nothing happens, so
				// that hour-long waits cost a few steps (any other timer still fires first)
				if s.idleStreak < 20 {
					s.idleStreak++
				}
				q = s.IdleQuantum << uint(s.idleStreak-1)
				if q > time.Hour || q <= 0 {
					q = time.Hour
				}
			}
			s.Ticks++
			s.record(kind, "", "", n)
			s.mu.Unlock()
			t := time.NewTimer(q)
			if kind == "T" {
				select {
				case <-s.wake:
				case <-t.C:
				}
			} else {
				<-t.C
			}
			t.Stop()
			continue
		}
		s.idleStreak = 0
		setSelectSeed(Mix(s.seed, "sel") + uint64(s.Steps)*0x9E3779B97F4A7C15 | 1)
		if chosen.g != nil {
			p := chosen.g
			// crash plan: is this the crash point?
			if cp := s.Crash; cp != nil && !cp.Fired && NodeOf(p.name) == cp.Node {
				ck := crashKind(p.kind)
				if ck != "" {
					s.CrashSeen[cp.Node+"/"+ck]++
					if cp.Kind == "any" || cp.Kind == ck {
						s.crashCnt[cp.Node]++
						if s.crashCnt[cp.Node] == cp.N {
							cp.Fired = true
							cp.Site = p.site
							if cp.Signal {
								s.record("SIGNAL", p.name, p.site, n)
								if cb := s.OnSignal; cb != nil {
									s.mu.Unlock()
									cb(cp.Node)
									s.mu.Lock()
								}
							} else if cp.Torn > 0 && ck == "fs" {
								// let the operation run; the fs layer tears it and crashes
								s.FS.tornFor = p.name
								s.FS.tornPermille = cp.Torn
							} else {
								if p.try != nil {
									// lock was taken on its behalf; the node is dead anyway
								}
								s.dead[cp.Node] = true
								s.record("CRASH", p.name, p.site, n)
								cb := s.OnCrash
								s.mu.Unlock()
								if cb != nil {
									cb(cp.Node)
								}
								continue
							}
						}
					}
				}
			} else if ck := crashKind(p.kind); ck != "" {
				s.CrashSeen[NodeOf(p.name)+"/"+ck]++
			}
			for i, q := range s.parked {
				if q == p {
					s.parked = append(s.parked[:i], s.parked[i+1:]...)
					break
				}
			}
			if s.SiteHits[p.site] == 0 {
				s.lastProgress = now
			}
			s.SiteHits[p.site]++
			s.lastSite[p.name] = p.site
			s.record("G", p.name, p.site, n)
			p.try = nil
			s.mu.Unlock()
			close(p.ch)
			continue
		}
		s.record("E", chosen.ev.Key, "", n)
		s.lastProgress = now
		s.mu.Unlock()
		chosen.ev.Fire()
	}
}

func crashKind(k string) string {
	switch {
	case strings.HasPrefix(k, "fs"):
		return "fs"
	case strings.HasPrefix(k, "net"):
		return "net"
	}
	return ""
}

// Stop ends scheduling: everything parked is released and later yields are
// no-ops. Used for the drain phase at the end of a run.
func (s *Sched) Stop() {
	s.mu.Lock()
	if !s.active {
		s.mu.Unlock()
		return
	}
	s.active = false
	ps := s.parked
	s.parked = nil
	s.mu.Unlock()
	close(s.stopCh)
	for _, p := range ps {
		close(p.ch)
	}
	setSelectSeed(0)
}

// Blocked lists "name@site" of everything parked (hang reports).
func (s *Sched) Blocked() []string {
	s.mu.Lock()
	defer s.mu.Unlock()
	var out []string
	for _, p := range s.parked {
		out = append(out, p.name+"@"+p.site)
	}
	sort.Strings(out)
	return out
}

// Since returns simulated time since Run started.
func (s *Sched) Since() time.Duration { return s.Elapsed }

// StepCounter is sampled by the real-time watchdog (time.Now is the fake clock inside a bubble).
func (s *Sched) StepCounter() int64 { return s.lastStepWall.Load() }

// Waiting lists, for every named goroutine that still exists, the last yield
// point it passed ("name@site"); goroutines currently parked are included.
// Used for hang reports: a goroutine durably blocked in a channel operation or
// simulated I/O is found at the yield that precedes that operation.
func (s *Sched) Waiting() []string {
	buf := make([]byte, 1<<20)
	n := runtime.Stack(buf, true)
	alive := map[uint64]bool{}
	for _, line := range strings.Split(string(buf[:n]), "\n") {
		if strings.HasPrefix(line, "goroutine ") {
			f := strings.Fields(line)
			if len(f) > 1 {
				var id uint64
				fmt.Sscanf(f[1], "%d", &id)
				alive[id] = true
			}
		}
	}
	s.mu.Lock()
	defer s.mu.Unlock()
	parkedAt := map[string]string{}
	for _, p := range s.parked {
		parkedAt[p.name] = p.site
	}
	var out []string
	for id, name := range s.names {
		if !alive[id] {
			continue
		}
		site := s.lastSite[name]
		if ps, ok := parkedAt[name]; ok {
			site = ps
		}
		if site == "" {
			site = "start"
		}
		out = append(out, name+"@"+site)
	}
	sort.Strings(out)
	return out
}

func (s *Sched) stallBudget() time.Duration {
	if s.Strat.StallBudgetMs > 0 {
		return time.Duration(s.Strat.StallBudgetMs) * time.Millisecond
	}
	return 20 * time.Second
}

func keepLogDefault() int {
	if v, err := strconv.Atoi(os.Getenv("VERIF_KEEPLOG")); err == nil && v > 0 {
		return v
	}
	return 600
}
