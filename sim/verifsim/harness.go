package verifsim

// Worker side of the check protocol: the driver starts N test binaries with a
// few environment variables; each worker generates its share of run specs from
// the seed, executes them, minimises the first violation of every signature
// and writes one JSON result file.

import (
	"sync"
	"encoding/json"
	"fmt"
	"os"
	"runtime"
	"sort"
	"strconv"
	"strings"
	"sync/atomic"
	"time"
	"unsafe"
)

type Violation struct {
	Property  string          `json:"property"`
	Class     string          `json:"class"`
	Signature string          `json:"signature"`
	Detail    string          `json:"detail"`
	Spec      json.RawMessage `json:"spec"`
	LogHash   string          `json:"log_hash"`
	Steps     int             `json:"steps"`
	Trace     []string        `json:"trace,omitempty"`
	Count     int             `json:"count"`
	Shrunk    int             `json:"shrunk_from_runs,omitempty"`
	RunIndex  int             `json:"run_index"`
}

type RunResult struct {
	Violations []*Violation
	LogHash    uint64
	Steps      int
	SimTime    time.Duration
	Counters   map[string]int64
	Nontrivial bool
	QStates    int
	Sample     any
	Trace      []string
	// Skipped: the spec was outside what this property judges (e.g. a side failed in C01).
	Skipped bool
}

type Harness interface {
	// Gen draws run spec number idx from r.
	Gen(r *SplitMix, tier string, idx int) any
	// Run executes a spec; it must be a pure function of the spec and the code.
	Run(spec any) RunResult
	// Shrink proposes strictly smaller specs.
	Shrink(spec any) []any
	Decode(raw json.RawMessage) (any, error)
}

type WorkerResult struct {
	Property    string           `json:"property"`
	Worker      int              `json:"worker"`
	Runs        int              `json:"runs"`
	Skipped     int              `json:"skipped"`
	Steps       int64            `json:"steps"`
	SimTimeNs   int64            `json:"sim_time_ns"`
	WallNs      int64            `json:"wall_ns"`
	Hashes      []string         `json:"hashes"`
	QStates     int64            `json:"qstates"`
	Nontrivial  int              `json:"nontrivial"`
	Counters    map[string]int64 `json:"counters"`
	Samples     []any            `json:"samples"`
	Violations  []*Violation     `json:"violations"`
	ReplayMatch *bool            `json:"replay_match,omitempty"`
	Note        string           `json:"note,omitempty"`
	Partial     bool             `json:"partial,omitempty"`
	NextIndex   int              `json:"next_index,omitempty"`
}

type WorkerEnv struct {
	Prop    string
	Mode    string // search | replay | determinism
	Tier    string
	Seed    uint64
	Worker  int
	Workers int
	Runs    int // total runs over all workers
	MaxWall time.Duration
	Out     string
	Replay  string
	Start   int // first run index to execute (restart after a crashed worker process)
}

func LoadWorkerEnv() (WorkerEnv, bool) {
	e := WorkerEnv{Prop: os.Getenv("VERIF_PROP"), Mode: os.Getenv("VERIF_MODE"), Tier: os.Getenv("VERIF_TIER"), Out: os.Getenv("VERIF_OUT"), Replay: os.Getenv("VERIF_REPLAY")}
	if e.Prop == "" {
		return e, false
	}
	e.Seed, _ = strconv.ParseUint(os.Getenv("VERIF_SEED"), 10, 64)
	e.Worker, _ = strconv.Atoi(os.Getenv("VERIF_WORKER"))
	e.Workers, _ = strconv.Atoi(os.Getenv("VERIF_WORKERS"))
	if e.Workers < 1 {
		e.Workers = 1
	}
	e.Runs, _ = strconv.Atoi(os.Getenv("VERIF_RUNS"))
	e.Start, _ = strconv.Atoi(os.Getenv("VERIF_START"))
	ms, _ := strconv.Atoi(os.Getenv("VERIF_MAXWALL_MS"))
	e.MaxWall = time.Duration(ms) * time.Millisecond
	if e.Tier == "" {
		e.Tier = "quick"
	}
	if e.Mode == "" {
		e.Mode = "search"
	}
	return e, true
}

func sameViolation(a, b *Violation) bool {
	return a != nil && b != nil && a.Class == b.Class && a.Signature == b.Signature
}

func findViolation(res RunResult, like *Violation) *Violation {
	for _, v := range res.Violations {
		if sameViolation(v, like) {
			return v
		}
	}
	return nil
}

// crumbFile, when set, receives the spec about to be executed, so that the
// driver can attribute a crash of the whole worker process (fatal runtime
// error, out of memory) to the run that caused it.
var crumbFile string

func leaveCrumb(idx int, spec any) {
	if crumbFile == "" {
		return
	}
	raw, _ := json.Marshal(spec)
	b, _ := json.Marshal(map[string]any{"idx": idx, "spec": json.RawMessage(raw)})
	_ = os.WriteFile(crumbFile, b, 0o644)
}

var crumbIdx int

// Minimise greedily shrinks spec while the same violation (class+signature) persists.
func Minimise(h Harness, spec any, v *Violation, maxRuns int) (any, *Violation, int) {
	runs := 0
	cur, curV := spec, v
	for progress := true; progress && runs < maxRuns; {
		progress = false
		for _, cand := range h.Shrink(cur) {
			if runs >= maxRuns {
				break
			}
			runs++
			leaveCrumb(crumbIdx, cand)
			res := h.Run(cand)
			if nv := findViolation(res, v); nv != nil {
				cur, curV = cand, nv
				progress = true
				break
			}
		}
	}
	return cur, curV, runs
}

// StartWatchdog exits the process with status 2 when the scheduler makes no
// step for the given real time (a frozen bubble is a harness problem, never a
// verdict).
func StartWatchdog(limit time.Duration) {
	go func() {
		var lastF uintptr
		last := int64(-1)
		since := time.Now()
		for {
			time.Sleep(2 * time.Second)
			sc := watched.Load()
			if sc == nil {
				last, since = -1, time.Now()
				continue
			}
			cur := sc.StepCounter()
			if cur != last || uintptr(unsafe.Pointer(sc)) != lastF {
				last, lastF, since = cur, uintptr(unsafe.Pointer(sc)), time.Now()
				continue
			}
			if time.Since(since) > limit {
				buf := make([]byte, 1<<20)
				n := runtime.Stack(buf, true)
				fmt.Fprintf(os.Stderr, "VERIF-WATCHDOG: no scheduler step for %v\n%s\n", limit, buf[:n])
				os.Exit(2)
			}
		}
	}()
}

var watched atomic.Pointer[Sched]

// Watch registers the scheduler whose progress the watchdog observes.
func Watch(s *Sched) { watched.Store(s) }

// WorkerMain runs the harness as directed by the environment. It returns the
// process exit code (0 ok, 2 infrastructure trouble).
func WorkerMain(h Harness, e WorkerEnv) int {
	// sync.Pool hands out items in an order that depends on the P a goroutine runs on
	// and on GC timing; the patched std makes every pool a LIFO free list here
	sync.VerifDeterministic.Store(true)
	StartWatchdog(60 * time.Second)
	start := time.Now()
	out := &WorkerResult{Property: e.Prop, Worker: e.Worker, Counters: map[string]int64{}}
	hashes := map[uint64]struct{}{}
	switch e.Mode {
	case "replay":
		raw, err := os.ReadFile(e.Replay)
		if err != nil {
			fmt.Fprintln(os.Stderr, "replay:", err)
			return 2
		}
		var rf struct {
			Violation Violation `json:"violation"`
		}
		if err := json.Unmarshal(raw, &rf); err != nil {
			fmt.Fprintln(os.Stderr, "replay:", err)
			return 2
		}
		spec, err := h.Decode(rf.Violation.Spec)
		if err != nil {
			fmt.Fprintln(os.Stderr, "replay decode:", err)
			return 2
		}
		if n, _ := strconv.Atoi(os.Getenv("VERIF_LOOP")); n > 0 {
			// development aid: the same spec many times in one process
			counts := map[string]int{}
			for i := 0; i < n; i++ {
				r := h.Run(spec)
				var ks []string
				for _, v := range r.Violations {
					ks = append(ks, v.Class+"|"+v.Signature)
				}
				sort.Strings(ks)
				counts[fmt.Sprintf("%016x %v", r.LogHash, ks)]++
			}
			for k, c := range counts {
				fmt.Printf("LOOP %d x %s\n", c, k)
			}
		}
		res := h.Run(spec)
		out.Runs = 1
		nv := findViolation(res, &rf.Violation)
		match := nv != nil && (nv.LogHash == rf.Violation.LogHash || os.Getenv("VERIF_UNSCHEDULED") != "")
		out.ReplayMatch = &match
		if nv != nil {
			nv.Spec = rf.Violation.Spec
			nv.Property = e.Prop
			out.Violations = append(out.Violations, nv)
			if nv.LogHash != rf.Violation.LogHash {
				out.Note = fmt.Sprintf("violation reproduced but decision-log hash differs: %s vs %s", nv.LogHash, rf.Violation.LogHash)
			}
		} else {
			out.Note = "violation did not reproduce"
			for _, v := range res.Violations {
				v.Property = e.Prop
				out.Violations = append(out.Violations, v)
			}
		}
	case "determinism":
		// every spec twice in this process; hashes must agree (cross-process
		// agreement is compared by the driver through the hash list, in order).
		for idx := e.Worker; idx < e.Runs; idx += e.Workers {
			spec := h.Gen(NewSplitMix(e.Seed*1000003+uint64(idx)), e.Tier, idx)
			a := h.Run(spec)
			b := h.Run(spec)
			out.Runs++
			out.Hashes = append(out.Hashes, fmt.Sprintf("%d:%016x:%d:%d", idx, a.LogHash, a.Steps, len(a.Violations)))
			if a.LogHash != b.LogHash || a.Steps != b.Steps || len(a.Violations) != len(b.Violations) {
				out.Note += fmt.Sprintf("NONDETERMINISTIC idx=%d %016x/%d vs %016x/%d; ", idx, a.LogHash, a.Steps, b.LogHash, b.Steps)
				if d := os.Getenv("VERIF_DUMP"); d != "" {
					os.WriteFile(fmt.Sprintf("%s/nd-%d-a.log", d, idx), []byte(strings.Join(a.Trace, "\n")), 0o644)
					os.WriteFile(fmt.Sprintf("%s/nd-%d-b.log", d, idx), []byte(strings.Join(b.Trace, "\n")), 0o644)
				}
			}
		}
	default:
		seen := map[string]*Violation{}
		if e.Out != "" {
			crumbFile = e.Out + ".crumb"
		}
		flush := func(partial bool, next int) {
			out.Partial, out.NextIndex = partial, next
			out.Hashes = out.Hashes[:0]
			for h := range hashes {
				out.Hashes = append(out.Hashes, fmt.Sprintf("%016x", h))
			}
			sort.Strings(out.Hashes)
			out.WallNs = int64(time.Since(start))
			if e.Out != "" {
				b, _ := json.Marshal(out)
				_ = os.WriteFile(e.Out+".tmp", b, 0o644)
				_ = os.Rename(e.Out+".tmp", e.Out)
			}
		}
		for idx := e.Worker; idx < e.Runs; idx += e.Workers {
			if idx < e.Start {
				continue
			}
			if out.Runs%25 == 0 {
				flush(true, idx)
			}
			if e.MaxWall > 0 && time.Since(start) > e.MaxWall {
				out.Note = fmt.Sprintf("wall budget reached after %d of this worker's runs", out.Runs)
				break
			}
			spec := h.Gen(NewSplitMix(e.Seed*1000003+uint64(idx)), e.Tier, idx)
			crumbIdx = idx
			leaveCrumb(idx, spec)
			res := h.Run(spec)
			out.Runs++
			if res.Skipped {
				out.Skipped++
			}
			out.Steps += int64(res.Steps)
			out.SimTimeNs += int64(res.SimTime)
			out.QStates += int64(res.QStates)
			for k, v := range res.Counters {
				out.Counters[k] += v
			}
			if res.Nontrivial {
				if _, ok := hashes[res.LogHash]; !ok {
					hashes[res.LogHash] = struct{}{}
					out.Nontrivial++
				}
			}
			if res.Sample != nil && len(out.Samples) < 3 {
				out.Samples = append(out.Samples, res.Sample)
			}
			for _, v := range res.Violations {
				key := v.Class + "|" + v.Signature
				if prev, ok := seen[key]; ok {
					prev.Count++
					continue
				}
				v.Property = e.Prop
				v.RunIndex = idx
				v.Count = 1
				budget := 150
				if e.Tier == "thorough" {
					budget = 400
				}
				mspec, mv, n := Minimise(h, spec, v, budget)
				mv.Property, mv.RunIndex, mv.Count, mv.Shrunk = e.Prop, idx, 1, n
				raw, _ := json.Marshal(mspec)
				mv.Spec = raw
				// the minimised spec must reproduce on a second execution
				leaveCrumb(idx, mspec)
				again := h.Run(mspec)
				if nv := findViolation(again, mv); (nv == nil || nv.LogHash != mv.LogHash) && os.Getenv("VERIF_UNSCHEDULED") == "" {
					var got []string
					for _, x := range again.Violations {
						got = append(got, x.Class+"|"+x.Signature+"|"+x.LogHash)
					}
					if dir := os.Getenv("VERIF_DEBUG_UNSTABLE"); strings.HasPrefix(dir, "/") {
						_ = os.WriteFile(fmt.Sprintf("%s/unstable-w%d-spec.json", dir, e.Worker), raw, 0o644)
						_ = os.WriteFile(fmt.Sprintf("%s/unstable-w%d-first.log", dir, e.Worker), []byte(mv.LogHash+"\n"+strings.Join(mv.Trace, "\n")), 0o644)
						for _, x := range again.Violations {
							_ = os.WriteFile(fmt.Sprintf("%s/unstable-w%d-again.log", dir, e.Worker), []byte(x.LogHash+"\n"+strings.Join(x.Trace, "\n")), 0o644)
						}
					}
					if os.Getenv("VERIF_DEBUG_UNSTABLE") != "" {
						for i := 0; i < 4; i++ {
							r := h.Run(mspec)
							var ks []string
							for _, x := range r.Violations {
								ks = append(ks, x.Class+"|"+x.Signature)
							}
							fmt.Fprintf(os.Stderr, "DEBUG-UNSTABLE rerun %d: %016x %v\n", i, r.LogHash, ks)
						if dir := os.Getenv("VERIF_DEBUG_UNSTABLE"); strings.HasPrefix(dir, "/") && len(r.Violations) > 0 {
							_ = os.WriteFile(fmt.Sprintf("%s/unstable-w%d-%d.log", dir, e.Worker, i), []byte(strings.Join(r.Violations[0].Trace, "\n")), 0o644)
						}
						}
						fmt.Fprintf(os.Stderr, "DEBUG-UNSTABLE original violation: %s|%s hash %s detail %s\n", mv.Class, mv.Signature, mv.LogHash, mv.Detail)
					}
					out.Note += fmt.Sprintf("UNSTABLE minimised replay for %s (hash %s): second execution gave %v spec=%s; ", key, mv.LogHash, got, raw)
				}
				seen[key] = mv
				out.Violations = append(out.Violations, mv)
				flush(true, idx+e.Workers)
			}
		}
		out.Partial = false
		if crumbFile != "" {
			_ = os.Remove(crumbFile)
		}
	}
	out.Hashes = out.Hashes[:0]
	for h := range hashes {
		out.Hashes = append(out.Hashes, fmt.Sprintf("%016x", h))
	}
	if e.Mode != "determinism" {
		sort.Strings(out.Hashes)
	}
	out.WallNs = int64(time.Since(start))
	b, _ := json.MarshalIndent(out, "", " ")
	if e.Out != "" {
		if err := os.WriteFile(e.Out, b, 0o644); err != nil {
			fmt.Fprintln(os.Stderr, "worker:", err)
			return 2
		}
	} else {
		fmt.Println(string(b))
	}
	if strings.Contains(out.Note, "NONDETERMINISTIC") {
		return 2
	}
	return 0
}

func HashStr(h uint64) string { return fmt.Sprintf("%016x", h) }
