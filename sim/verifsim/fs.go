package verifsim

// File-system interposition. The build overlay rewrites os.X(...) and
// f.WriteAt/ReadAt/Truncate(...) in simulated packages into these wrappers.
// Every operation is a scheduler point (hence a crash point), a fault site and
// is then executed for real inside the run's scratch directory.

import (
	"time"
	"errors"
	"io"
	"io/fs"
	"os"
	"path/filepath"
	"sync"
	"syscall"
)

type FSOp struct {
	Node  string `json:"node"`
	Kind  string `json:"kind"`
	Path  string `json:"path"`
	Path2 string `json:"path2,omitempty"`
	Mut   bool   `json:"mut"`
	Len   int    `json:"len,omitempty"`
	Off   int64  `json:"off,omitempty"`
	Site  string `json:"site"`
	Seq   int    `json:"seq"`
}

type FSState struct {
	mu     sync.Mutex
	LogOps bool
	Log    []FSOp
	Counts map[string]int // "node/kind" -> operations executed
	Seq    int
	// Fault decides whether an operation fails; it is called before the real
	// operation with the scheduler quiescent except for the caller.
	Fault func(op *FSOp) error
	// OnOp is called after a successful mutating operation (oracles hook here).
	OnOp func(op *FSOp)
	// Delay makes an operation slow: the caller sleeps that long (on the bubble's
	// clock, other goroutines go on) before the operation is carried out.
	Delay   func(op *FSOp) time.Duration
	Delayed int

	tornFor      string
	tornPermille int
	Torn         *FSOp // the operation that was torn by the crash plan
	Faulted      map[string]int
}

var ErrNodeDead = errors.New("verifsim: process is dead")

func NewFS() *FSState {
	return &FSState{Counts: map[string]int{}, Faulted: map[string]int{}}
}

// enter parks, then returns (torn permille, error to inject).
func fsEnter(site, kind, path, path2 string, mut bool, n int, off int64) (*Sched, *FSOp, int, error) {
	s := S
	if s == nil || s.FS == nil {
		return nil, nil, 0, nil
	}
	k := "fsr:" + kind
	if mut {
		k = "fsw:" + kind
	}
	Y(site, k)
	name := Name()
	node := NodeOf(name)
	if s.IsDead(node) {
		return s, nil, 0, ErrNodeDead
	}
	f := s.FS
	f.mu.Lock()
	f.Seq++
	op := &FSOp{Node: node, Kind: kind, Path: path, Path2: path2, Mut: mut, Len: n, Off: off, Site: site, Seq: f.Seq}
	f.Counts[node+"/"+kind]++
	torn := 0
	if f.tornFor != "" && f.tornFor == name {
		torn = f.tornPermille
		f.tornFor = ""
		f.Torn = op
	}
	fault := f.Fault
	delay := f.Delay
	f.mu.Unlock()
	s.Progress()
	if torn > 0 {
		return s, op, torn, nil
	}
	if delay != nil {
		if d := delay(op); d > 0 {
			f.mu.Lock()
			f.Delayed++
			f.mu.Unlock()
			time.Sleep(d)
			if s.IsDead(node) {
				return s, nil, 0, ErrNodeDead
			}
		}
	}
	if fault != nil {
		if err := fault(op); err != nil {
			f.mu.Lock()
			f.Faulted[kind]++
			if f.LogOps {
				e := *op
				e.Kind += "!fault"
				f.Log = append(f.Log, e)
			}
			f.mu.Unlock()
			return s, op, 0, err
		}
	}
	return s, op, 0, nil
}

func fsDone(s *Sched, op *FSOp, err error) {
	if s == nil || op == nil {
		return
	}
	f := s.FS
	f.mu.Lock()
	if f.LogOps {
		e := *op
		if err != nil {
			e.Kind += "!err"
		}
		f.Log = append(f.Log, e)
	}
	cb := f.OnOp
	f.mu.Unlock()
	if cb != nil && err == nil && op.Mut {
		cb(op)
	}
}

// die marks the caller's node dead after a torn operation and never returns
// before the drain phase.
func fsDie(s *Sched, op *FSOp) {
	s.mu.Lock()
	s.dead[op.Node] = true
	cb := s.OnCrash
	s.mu.Unlock()
	if cb != nil {
		cb(op.Node)
	}
	s.Kick()
	<-s.stopCh
}

func cut(n, permille int) int {
	k := n * permille / 1000
	if k > n {
		k = n
	}
	return k
}

func OpenFile(site, name string, flag int, perm os.FileMode) (*os.File, error) {
	mut := flag&(os.O_CREATE|os.O_TRUNC|os.O_WRONLY|os.O_RDWR|os.O_APPEND) != 0
	s, op, torn, err := fsEnter(site, "open", name, "", mut, 0, 0)
	if err != nil {
		return nil, &fs.PathError{Op: "open", Path: name, Err: err}
	}
	if torn > 0 {
		if torn >= 500 {
			if f, e := os.OpenFile(name, flag, perm); e == nil {
				f.Close()
			}
		}
		fsDie(s, op)
		return nil, &fs.PathError{Op: "open", Path: name, Err: ErrNodeDead}
	}
	f, e := os.OpenFile(name, flag, perm)
	fsDone(s, op, e)
	return f, e
}

func Open(site, name string) (*os.File, error) { return OpenFile(site, name, os.O_RDONLY, 0) }

func Create(site, name string) (*os.File, error) {
	return OpenFile(site, name, os.O_RDWR|os.O_CREATE|os.O_TRUNC, 0666)
}

// WriteFile is what os.WriteFile is underneath: open with O_TRUNC, then write,
// then close. The two steps are separate scheduler points (kinds "wfopen" and
// "writefile"), so another goroutine's rename or read of the same path can fall
// between them, and so can a crash (the file is then empty).
func WriteFile(site, name string, data []byte, perm os.FileMode) error {
	s, op, torn, err := fsEnter(site, "wfopen", name, "", true, 0, 0)
	if err != nil {
		return &fs.PathError{Op: "open", Path: name, Err: err}
	}
	if torn > 0 {
		if torn >= 500 {
			if f, e := os.OpenFile(name, os.O_WRONLY|os.O_CREATE|os.O_TRUNC, perm); e == nil {
				f.Close()
			}
		}
		fsDie(s, op)
		return &fs.PathError{Op: "open", Path: name, Err: ErrNodeDead}
	}
	f, e := os.OpenFile(name, os.O_WRONLY|os.O_CREATE|os.O_TRUNC, perm)
	fsDone(s, op, e)
	if e != nil {
		return e
	}
	s, op, torn, err = fsEnter(site, "writefile", name, "", true, len(data), 0)
	if err != nil {
		f.Close()
		return &fs.PathError{Op: "write", Path: name, Err: err}
	}
	if torn > 0 {
		_, _ = f.Write(data[:cut(len(data), torn)])
		f.Close()
		fsDie(s, op)
		return &fs.PathError{Op: "write", Path: name, Err: ErrNodeDead}
	}
	_, e = f.Write(data)
	if e1 := f.Close(); e == nil {
		e = e1
	}
	fsDone(s, op, e)
	return e
}

func ReadFile(site, name string) ([]byte, error) {
	s, op, torn, err := fsEnter(site, "readfile", name, "", false, 0, 0)
	if err != nil {
		return nil, &fs.PathError{Op: "open", Path: name, Err: err}
	}
	if torn > 0 {
		fsDie(s, op)
		return nil, ErrNodeDead
	}
	b, e := os.ReadFile(name)
	fsDone(s, op, e)
	return b, e
}

func ReadDir(site, name string) ([]os.DirEntry, error) {
	s, op, torn, err := fsEnter(site, "readdir", name, "", false, 0, 0)
	if err != nil {
		return nil, &fs.PathError{Op: "open", Path: name, Err: err}
	}
	if torn > 0 {
		fsDie(s, op)
		return nil, ErrNodeDead
	}
	b, e := os.ReadDir(name)
	fsDone(s, op, e)
	return b, e
}

func Rename(site, oldp, newp string) error {
	s, op, torn, err := fsEnter(site, "rename", oldp, newp, true, 0, 0)
	if err != nil {
		return &os.LinkError{Op: "rename", Old: oldp, New: newp, Err: err}
	}
	if torn > 0 {
		if torn >= 500 {
			if os.Rename(oldp, newp) == nil {
				fsDone(s, op, nil) // the rename is atomic: it happened, then the process died
			}
		}
		fsDie(s, op)
		return ErrNodeDead
	}
	e := os.Rename(oldp, newp)
	fsDone(s, op, e)
	return e
}

func Remove(site, name string) error {
	s, op, torn, err := fsEnter(site, "remove", name, "", true, 0, 0)
	if err != nil {
		return &fs.PathError{Op: "remove", Path: name, Err: err}
	}
	if torn > 0 {
		if torn >= 500 {
			_ = os.Remove(name)
		}
		fsDie(s, op)
		return ErrNodeDead
	}
	e := os.Remove(name)
	fsDone(s, op, e)
	return e
}

func RemoveAll(site, name string) error {
	s, op, torn, err := fsEnter(site, "removeall", name, "", true, 0, 0)
	if err != nil {
		return &fs.PathError{Op: "removeall", Path: name, Err: err}
	}
	if torn > 0 {
		fsDie(s, op)
		return ErrNodeDead
	}
	e := os.RemoveAll(name)
	fsDone(s, op, e)
	return e
}

func MkdirAll(site, name string, perm os.FileMode) error {
	s, op, torn, err := fsEnter(site, "mkdirall", name, "", true, 0, 0)
	if err != nil {
		return &fs.PathError{Op: "mkdir", Path: name, Err: err}
	}
	if torn > 0 {
		if torn >= 500 {
			_ = os.MkdirAll(name, perm)
		} else {
			_ = os.MkdirAll(filepath.Dir(name), perm)
		}
		fsDie(s, op)
		return ErrNodeDead
	}
	e := os.MkdirAll(name, perm)
	fsDone(s, op, e)
	return e
}

func Stat(site, name string) (os.FileInfo, error) {
	s, op, torn, err := fsEnter(site, "stat", name, "", false, 0, 0)
	if err != nil {
		return nil, &fs.PathError{Op: "stat", Path: name, Err: err}
	}
	if torn > 0 {
		fsDie(s, op)
		return nil, ErrNodeDead
	}
	fi, e := os.Stat(name)
	fsDone(s, op, e)
	return fi, e
}

func Lstat(site, name string) (os.FileInfo, error) {
	s, op, torn, err := fsEnter(site, "lstat", name, "", false, 0, 0)
	if err != nil {
		return nil, &fs.PathError{Op: "lstat", Path: name, Err: err}
	}
	if torn > 0 {
		fsDie(s, op)
		return nil, ErrNodeDead
	}
	fi, e := os.Lstat(name)
	fsDone(s, op, e)
	return fi, e
}

func nameOfFile(f any) (string, bool) {
	if of, ok := f.(*os.File); ok && of != nil {
		return of.Name(), true
	}
	return "", false
}

func FWriteAt(site string, f io.WriterAt, b []byte, off int64) (int, error) {
	name, ok := nameOfFile(f)
	if !ok {
		return f.WriteAt(b, off)
	}
	s, op, torn, err := fsEnter(site, "writeat", name, "", true, len(b), off)
	if err != nil {
		return 0, &fs.PathError{Op: "write", Path: name, Err: err}
	}
	if torn > 0 {
		k := cut(len(b), torn)
		if k > 0 {
			_, _ = f.WriteAt(b[:k], off)
		}
		fsDie(s, op)
		return k, &fs.PathError{Op: "write", Path: name, Err: ErrNodeDead}
	}
	n, e := f.WriteAt(b, off)
	fsDone(s, op, e)
	return n, e
}

func FReadAt(site string, f io.ReaderAt, b []byte, off int64) (int, error) {
	name, ok := nameOfFile(f)
	if !ok {
		return f.ReadAt(b, off)
	}
	s, op, torn, err := fsEnter(site, "readat", name, "", false, len(b), off)
	if err != nil {
		return 0, &fs.PathError{Op: "read", Path: name, Err: err}
	}
	if torn > 0 {
		fsDie(s, op)
		return 0, ErrNodeDead
	}
	n, e := f.ReadAt(b, off)
	if e == io.EOF {
		fsDone(s, op, nil)
	} else {
		fsDone(s, op, e)
	}
	return n, e
}

type truncater interface{ Truncate(int64) error }

func FTruncate(site string, f truncater, size int64) error {
	name, ok := nameOfFile(f)
	if !ok {
		return f.Truncate(size)
	}
	s, op, torn, err := fsEnter(site, "truncate", name, "", true, 0, size)
	if err != nil {
		return &fs.PathError{Op: "truncate", Path: name, Err: err}
	}
	if torn > 0 {
		if torn >= 500 {
			_ = f.Truncate(size)
		}
		fsDie(s, op)
		return ErrNodeDead
	}
	e := f.Truncate(size)
	fsDone(s, op, e)
	return e
}

// Errno values for fault plans.
var (
	ENOSPC = syscall.ENOSPC
	EIO    = syscall.EIO
	EACCES = syscall.EACCES
)
