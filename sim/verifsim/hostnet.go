package verifsim

// Seams for whole-application worlds (tier T4): the product's own socket, interface,
// terminal-input and sub-process calls, rewritten by the instrumenter in the
// packages that make them (internal/app, internal/ice, internal/transport):
//
//	*net.UDPConn       -> verifsim.UDPConn (interface)
//	net.ListenUDP(..)  -> verifsim.ListenUDP(..)
//	net.Interfaces()   -> verifsim.Interfaces()
//	os.Stdin           -> verifsim.Stdin()
//	exec.Command(..)   -> verifsim.ExecCommand(..)
//
// Without a world installed (World == nil) every one of them is the real thing.

import (
	"errors"
	"io"
	"net"
	"os"
	"os/exec"
)

// UDPConn is what the product uses of *net.UDPConn.
type UDPConn interface {
	net.PacketConn
	WriteToUDP(b []byte, addr *net.UDPAddr) (int, error)
	ReadFromUDP(b []byte) (int, *net.UDPAddr, error)
	SetReadBuffer(bytes int) error
	SetWriteBuffer(bytes int) error
}

// Iface is what the product uses of net.Interface.
type Iface struct {
	Name  string
	Flags net.Flags
	IPs   []net.IP
	real  *net.Interface
}

func (i Iface) Addrs() ([]net.Addr, error) {
	if i.real != nil {
		return i.real.Addrs()
	}
	var out []net.Addr
	for _, ip := range i.IPs {
		bits := 32
		if ip.To4() == nil {
			bits = 128
		}
		out = append(out, &net.IPNet{IP: ip, Mask: net.CIDRMask(24, bits)})
	}
	return out, nil
}

// AppWorld is installed by a whole-application harness; node is the simulated
// process the calling goroutine belongs to.
type AppWorld struct {
	ListenUDP  func(node string, laddr *net.UDPAddr) (UDPConn, error)
	Interfaces func(node string) []Iface
	Stdin      func(node string) io.Reader
}

var World *AppWorld

func ListenUDP(network string, laddr *net.UDPAddr) (UDPConn, error) {
	if w := World; w != nil && w.ListenUDP != nil {
		return w.ListenUDP(Node(), laddr)
	}
	c, err := net.ListenUDP(network, laddr)
	if err != nil {
		return nil, err
	}
	return c, nil
}

func Interfaces() ([]Iface, error) {
	if w := World; w != nil && w.Interfaces != nil {
		return w.Interfaces(Node()), nil
	}
	ifs, err := net.Interfaces()
	if err != nil {
		return nil, err
	}
	out := make([]Iface, len(ifs))
	for i := range ifs {
		out[i] = Iface{Name: ifs[i].Name, Flags: ifs[i].Flags, real: &ifs[i]}
	}
	return out, nil
}

func Stdin() io.Reader {
	if w := World; w != nil && w.Stdin != nil {
		return w.Stdin(Node())
	}
	return os.Stdin
}

// Cmd is what the product uses of exec.Cmd (clipboard helpers).
type Cmd struct {
	Stdin          io.Reader
	Stdout, Stderr io.Writer
	name           string
	args           []string
}

func ExecCommand(name string, args ...string) *Cmd { return &Cmd{name: name, args: args} }

func (c *Cmd) Run() error {
	if World != nil {
		return errors.New("exec: \"" + c.name + "\": executable file not found in $PATH")
	}
	rc := exec.Command(c.name, c.args...)
	rc.Stdin, rc.Stdout, rc.Stderr = c.Stdin, c.Stdout, c.Stderr
	return rc.Run()
}
