package verifsim

// SimTCP (tier T3): in-memory TCP whose connection set-up and every segment
// delivery is a scheduler event; deadlines run on the bubble's fake clock.
// It carries real net/http and gorilla/websocket on both sides.

import (
	"context"
	"fmt"
	"io"
	"net"
	"os"
	"sort"
	"sync"
	"syscall"
	"time"
)

type tcpSeg struct {
	data []byte
	fin  bool
}

type TCPConn struct {
	net         *TCPNet
	Name        string
	peer        *TCPConn
	local       net.Addr
	remote      net.Addr
	out         []tcpSeg // written, not yet delivered to the peer
	recv        []byte   // delivered, unread
	finRecv     bool
	closed      bool
	reset       bool
	rdl, wdl    time.Time
	Paused      bool // deliveries towards the peer are held (slow / stalled path)
	BytesOut    int64
	established bool
	queued      int // bytes in out
}

type TCPListener struct {
	net     *TCPNet
	addr    *net.TCPAddr
	backlog []*TCPConn
	closed  bool
}

type pendingDial struct {
	id     int
	l      *TCPListener
	client *TCPConn
	server *TCPConn
	done   bool
	refuse bool
}

type TCPNet struct {
	mu         sync.Mutex
	cond       chan struct{}
	S          *Sched
	SegMax     int
	listeners  map[string]*TCPListener
	conns      []*TCPConn
	dials      []*pendingDial
	nextID     int
	Deliveries int
	Conns      int
	Resets     int
	// SendBuf bounds the bytes a connection may have written but not yet delivered
	// (0 = unbounded): a Write beyond it blocks, as on a socket whose peer is slow.
	SendBuf    int
	SendBlocks int
}

func NewTCPNet(s *Sched, segMax int) *TCPNet {
	if segMax <= 0 {
		segMax = 1400
	}
	return &TCPNet{cond: make(chan struct{}), S: s, SegMax: segMax, listeners: map[string]*TCPListener{}}
}

func (n *TCPNet) changed() {
	close(n.cond)
	n.cond = make(chan struct{})
}

func (n *TCPNet) Listen(hostport string) (*TCPListener, error) {
	n.mu.Lock()
	defer n.mu.Unlock()
	host, port, err := net.SplitHostPort(hostport)
	if err != nil {
		return nil, err
	}
	var p int
	fmt.Sscanf(port, "%d", &p)
	ip := net.ParseIP(host)
	if ip == nil {
		ip = net.IPv4(10, 0, 0, 1)
	}
	l := &TCPListener{net: n, addr: &net.TCPAddr{IP: ip, Port: p}}
	n.listeners[port] = l
	return l, nil
}

// Events lists enabled network events (connection set-ups and segment deliveries).
func (n *TCPNet) Events() []Event {
	n.mu.Lock()
	defer n.mu.Unlock()
	var evs []Event
	for _, d := range n.dials {
		d := d
		if !d.done {
			evs = append(evs, Event{Key: fmt.Sprintf("syn/%04d", d.id), Fire: func() { n.establish(d) }})
		}
	}
	names := make([]string, 0)
	byName := map[string]*TCPConn{}
	for _, c := range n.conns {
		if len(c.out) > 0 && !c.Paused && c.established {
			names = append(names, c.Name)
			byName[c.Name] = c
		}
	}
	sort.Strings(names)
	for _, nm := range names {
		c := byName[nm]
		evs = append(evs, Event{Key: "tcp/" + nm, Fire: func() { n.deliver(c) }})
	}
	return evs
}

func (n *TCPNet) establish(d *pendingDial) {
	n.mu.Lock()
	defer n.mu.Unlock()
	if d.done {
		return
	}
	d.done = true
	if d.l == nil || d.l.closed {
		d.refuse = true
	} else {
		d.client.established, d.server.established = true, true
		d.l.backlog = append(d.l.backlog, d.server)
		n.Conns++
	}
	n.changed()
}

func (n *TCPNet) deliver(c *TCPConn) {
	n.mu.Lock()
	defer n.mu.Unlock()
	if len(c.out) == 0 {
		return
	}
	seg := c.out[0]
	c.out = c.out[1:]
	c.queued -= len(seg.data)
	p := c.peer
	if p.closed || p.reset {
		// data for a closed socket: the peer answers with a reset
		if len(seg.data) > 0 && !c.reset {
			c.reset = true
			n.Resets++
		}
		n.changed()
		return
	}
	n.Deliveries++
	p.recv = append(p.recv, seg.data...)
	if seg.fin {
		p.finRecv = true
	}
	n.changed()
}

// Dial connects from srcIP to the listener on addr; it returns when the
// scheduler has fired the connection set-up event.
func (n *TCPNet) Dial(ctx context.Context, srcIP string, addr string) (net.Conn, error) {
	Y("tcp.Dial", "net:dial")
	n.mu.Lock()
	_, port, err := net.SplitHostPort(addr)
	if err != nil {
		n.mu.Unlock()
		return nil, err
	}
	l := n.listeners[port]
	n.nextID++
	id := n.nextID
	cip := net.ParseIP(srcIP)
	if cip == nil {
		cip = net.IPv4(10, 0, 1, byte(id))
	}
	laddr := &net.TCPAddr{IP: cip, Port: 40000 + id}
	var raddr net.Addr = &net.TCPAddr{IP: net.IPv4(10, 0, 0, 1), Port: 8080}
	if l != nil {
		raddr = l.addr
	}
	c := &TCPConn{net: n, Name: fmt.Sprintf("t%04d.c", id), local: laddr, remote: raddr}
	s := &TCPConn{net: n, Name: fmt.Sprintf("t%04d.s", id), local: raddr, remote: laddr}
	c.peer, s.peer = s, c
	n.conns = append(n.conns, c, s)
	d := &pendingDial{id: id, l: l, client: c, server: s}
	n.dials = append(n.dials, d)
	n.S.Kick()
	for !d.done {
		ch := n.cond
		n.mu.Unlock()
		var done <-chan struct{}
		if ctx != nil {
			done = ctx.Done()
		}
		select {
		case <-ch:
		case <-done:
			n.mu.Lock()
			d.done = true
			n.mu.Unlock()
			return nil, ctx.Err()
		}
		n.mu.Lock()
	}
	refuse := d.refuse
	n.mu.Unlock()
	if refuse {
		return nil, &net.OpError{Op: "dial", Net: "tcp", Addr: raddr, Err: syscall.ECONNREFUSED}
	}
	return c, nil
}

func (l *TCPListener) Accept() (net.Conn, error) {
	n := l.net
	for {
		n.mu.Lock()
		if l.closed {
			n.mu.Unlock()
			return nil, net.ErrClosed
		}
		if len(l.backlog) > 0 {
			c := l.backlog[0]
			l.backlog = l.backlog[1:]
			n.mu.Unlock()
			return c, nil
		}
		ch := n.cond
		n.mu.Unlock()
		<-ch
	}
}

func (l *TCPListener) Close() error {
	l.net.mu.Lock()
	l.closed = true
	l.net.changed()
	l.net.mu.Unlock()
	return nil
}

func (l *TCPListener) Addr() net.Addr { return l.addr }

func (c *TCPConn) wait(ch chan struct{}, dl time.Time) error {
	var timer <-chan time.Time
	if !dl.IsZero() {
		d := time.Until(dl)
		if d <= 0 {
			return os.ErrDeadlineExceeded
		}
		t := time.NewTimer(d)
		defer t.Stop()
		timer = t.C
	}
	select {
	case <-ch:
		return nil
	case <-timer:
		return os.ErrDeadlineExceeded
	}
}

func (c *TCPConn) Read(p []byte) (int, error) {
	n := c.net
	for {
		n.mu.Lock()
		if c.closed {
			n.mu.Unlock()
			return 0, net.ErrClosed
		}
		if len(c.recv) > 0 {
			k := copy(p, c.recv)
			c.recv = c.recv[k:]
			n.mu.Unlock()
			return k, nil
		}
		if c.reset {
			n.mu.Unlock()
			return 0, &net.OpError{Op: "read", Net: "tcp", Err: syscall.ECONNRESET}
		}
		if c.finRecv {
			n.mu.Unlock()
			return 0, io.EOF
		}
		if !c.rdl.IsZero() && !time.Now().Before(c.rdl) {
			n.mu.Unlock()
			return 0, &net.OpError{Op: "read", Net: "tcp", Err: os.ErrDeadlineExceeded}
		}
		ch := n.cond
		dl := c.rdl
		n.mu.Unlock()
		if err := c.wait(ch, dl); err != nil {
			return 0, &net.OpError{Op: "read", Net: "tcp", Err: err}
		}
	}
}

func (c *TCPConn) Write(p []byte) (int, error) {
	Y("tcp.Write", "net:write")
	n := c.net
	n.mu.Lock()
	defer n.mu.Unlock()
	if c.closed {
		return 0, net.ErrClosed
	}
	if c.reset {
		return 0, &net.OpError{Op: "write", Net: "tcp", Err: syscall.EPIPE}
	}
	if !c.wdl.IsZero() && !time.Now().Before(c.wdl) {
		return 0, &net.OpError{Op: "write", Net: "tcp", Err: os.ErrDeadlineExceeded}
	}
	if n.SendBuf > 0 && c.queued >= n.SendBuf {
		n.SendBlocks++
		for c.queued >= n.SendBuf && !c.closed && !c.reset {
			ch := n.cond
			dl := c.wdl
			n.mu.Unlock()
			err := c.wait(ch, dl)
			n.mu.Lock()
			if err != nil {
				return 0, &net.OpError{Op: "write", Net: "tcp", Err: err}
			}
		}
		if c.closed {
			return 0, net.ErrClosed
		}
		if c.reset {
			return 0, &net.OpError{Op: "write", Net: "tcp", Err: syscall.EPIPE}
		}
		// the socket has room again: from here on the writer is the scheduler's to release
		n.mu.Unlock()
		Y("tcp.Write", "net:write-unblocked")
		n.mu.Lock()
	}
	rest := p
	for len(rest) > 0 {
		k := len(rest)
		if k > 1 {
			m := n.SegMax
			if k > m {
				k = m
			}
			k = 1 + int(n.S.Data.Next()%uint64(k))
		}
		c.out = append(c.out, tcpSeg{data: append([]byte(nil), rest[:k]...)})
		c.queued += k
		rest = rest[k:]
	}
	c.BytesOut += int64(len(p))
	n.S.Kick()
	return len(p), nil
}

func (c *TCPConn) Close() error {
	Y("tcp.Close", "net:close")
	return c.CloseNow()
}

// CloseNow is Close without a scheduling point: what the kernel does with the
// sockets of a process that has exited.
func (c *TCPConn) CloseNow() error {
	n := c.net
	n.mu.Lock()
	defer n.mu.Unlock()
	if c.closed {
		return nil
	}
	c.closed = true
	c.out = append(c.out, tcpSeg{fin: true})
	n.changed()
	n.S.Kick()
	return nil
}

// Reset aborts the connection: the peer sees ECONNRESET, queued data is lost.
func (c *TCPConn) Reset() {
	n := c.net
	n.mu.Lock()
	c.closed = true
	c.out, c.queued = nil, 0
	c.peer.reset = true
	c.peer.out, c.peer.queued = nil, 0
	n.Resets++
	n.changed()
	n.mu.Unlock()
}

func (c *TCPConn) SetPaused(p bool) {
	c.net.mu.Lock()
	c.Paused = p
	c.net.mu.Unlock()
	c.net.S.Kick()
}

func (c *TCPConn) LocalAddr() net.Addr  { return c.local }
func (c *TCPConn) RemoteAddr() net.Addr { return c.remote }

func (c *TCPConn) SetDeadline(t time.Time) error {
	c.net.mu.Lock()
	c.rdl, c.wdl = t, t
	c.net.changed() // blocked readers re-evaluate (net/http aborts reads this way)
	c.net.mu.Unlock()
	return nil
}

func (c *TCPConn) SetReadDeadline(t time.Time) error {
	c.net.mu.Lock()
	c.rdl = t
	c.net.changed()
	c.net.mu.Unlock()
	return nil
}

func (c *TCPConn) SetWriteDeadline(t time.Time) error {
	c.net.mu.Lock()
	c.wdl = t
	c.net.mu.Unlock()
	return nil
}

// Peer returns the other end (harness use: fault injection on a known connection).
func (c *TCPConn) Peer() *TCPConn { return c.peer }

// Shutdown unblocks everything (drain phase).
func (n *TCPNet) Shutdown() {
	n.mu.Lock()
	for _, l := range n.listeners {
		l.closed = true
	}
	for _, c := range n.conns {
		c.closed = true
	}
	for _, d := range n.dials {
		if !d.done {
			d.done, d.refuse = true, true
		}
	}
	n.changed()
	n.mu.Unlock()
}
