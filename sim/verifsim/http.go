package verifsim

import "net/http"

// HTTPServe, when set by a harness, receives the server that the simulated
// process would have bound to a TCP port.
var HTTPServe func(addr string, h http.Handler) error

// ListenAndServe replaces http.ListenAndServe in simulated main packages.
func ListenAndServe(addr string, h http.Handler) error {
	if f := HTTPServe; f != nil {
		return f(addr, h)
	}
	return http.ListenAndServe(addr, h)
}
